#!/bin/bash
# usage: tools/run_seed.sh <seed-id e.g. C02-1> [PROP ...]   applies the patch to /repo, runs the quick checks
# (without rewriting evidence), undoes the patch.
set -u
S=$1; shift
D=/verif/seeded/$S
P=${S%%-*}
PROPS=${@:-$P}
if [ -n "$(git -C /repo status --porcelain)" ]; then echo "refusing: /repo has uncommitted changes (commit contract edits first)"; exit 3; fi
cd /repo && git apply $D/patch.diff || { echo "patch does not apply"; exit 2; }
for p in $PROPS; do
  /verif/bin/govc check $p --tier quick --noevidence > /var/tmp/run_seed.$$.txt 2>&1
  n=$(grep -c "^VIOLATION" /var/tmp/run_seed.$$.txt)
  echo "seed $S vs $p: violations=$n"
  grep "^  obligation" /var/tmp/run_seed.$$.txt | head -4 | cut -c1-220
done
rm -f /var/tmp/run_seed.$$.txt
git -C /repo checkout -- .
