#!/bin/bash
# usage: tools/run_all.sh [--evidence] [PROP...]  runs the quick checks of all claimed properties; prints one line each
EV="--noevidence"
if [ "$1" = "--evidence" ]; then EV=""; shift; fi
PROPS=${@:-$(python3 -c "import json;print(' '.join(c['property_id'] for c in json.load(open('/verif/MANIFEST.json'))['checks']))")}
rc=0
for p in $PROPS; do
  out=$(/verif/bin/govc check $p --tier quick $EV 2>&1); code=$?
  echo "$p exit=$code $(echo "$out" | grep '^govc:' | cut -c1-160)"
  echo "$out" | grep "^VIOLATION\|^  obligation" | head -6 | cut -c1-220
  [ $code -ne 0 ] && rc=1
done
exit $rc
