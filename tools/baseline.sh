#!/bin/bash
# Runs the repository's pinned baseline suite (guard off) and compares with BASELINE.json stable_pass.
# usage: tools/baseline.sh [outfile]
export GOFLAGS=-mod=mod GOPROXY=off GOSUMDB=off GOTOOLCHAIN=local
OUT=${1:-/var/tmp/baseline.$$.json}
cd /repo && go test -mod=mod -json -vet=off -count=1 -timeout 25m ./... > "$OUT" 2>/dev/null
python3 - "$OUT" <<'PY'
import json,sys
passed=set()
for l in open(sys.argv[1]):
    try: e=json.loads(l)
    except Exception: continue
    if e.get('Action')=='pass' and e.get('Test'):
        passed.add(e['Package']+'::'+e['Test'])
base=set(json.load(open('/root/.vp/BASELINE.json'))['stable_pass'])
missing=sorted(base-passed)
print('baseline stable_pass:',len(base),'passed now:',len(base&passed),'missing:',len(missing))
for m in missing[:40]: print('  MISSING',m)
sys.exit(1 if missing else 0)
PY
rc=$?
rm -f "$OUT" /tmp/*_peer_id.json; rm -rf /tmp/pex_reactor* /tmp/trust_test* 2>/dev/null
exit $rc
