#!/usr/bin/env python3
"""Generates /verif/MANIFEST.json from tools/claims.json (claimed checks) and properties.jsonl."""
import json, subprocess
props=[json.loads(l) for l in open('/verif/properties.jsonl')]
claims=json.load(open('/verif/tools/claims.json'))
base=json.load(open('/root/.vp/BASELINE.json'))
hooks_commits=subprocess.run(['git','-C','/repo','log','--format=%h %s'],capture_output=True,text=True).stdout.strip().split('\n')
src=[l.split()[0] for l in hooks_commits if l.split(' ',1)[1].startswith('verif:')]
checks=[]
for pid,c in sorted(claims['claimed'].items()):
    checks.append({
        "property_id":pid,
        "quick_cmd":f"/verif/bin/govc check {pid} --tier quick",
        "thorough_cmd":f"/verif/bin/govc check {pid} --tier thorough",
        "evidence_file":f"/verif/evidence/{pid}.json",
        "replay_cmd_template":"/verif/bin/govc replay {path}",
        "engine":"govc",
        "level_claimed":{"category":c.get('category','proof'),"text":c['text'],"design_ref":c.get('design_ref','DESIGN.md section 3 '+pid)},
        "level_note":c['note'],
        "technique":c.get('technique',"contract-based deductive verification: weakest-precondition style VCs generated from go/ssa of the real code + //@ contracts, discharged by z3/z3-new/cvc5"),
    })
na=[{"property_id":p['id'],"reason":claims['not_applicable'].get(p['id'],"within reach of the technique (DESIGN section 3) but the check is not built yet")} for p in props if p['id'] not in claims['claimed']]
m={"version":1,
 "setup_cmd":"cd /verif/govc && GOFLAGS=-mod=mod GOPROXY=off GOSUMDB=off GOTOOLCHAIN=local go build -o /verif/bin/govc .",
 "hooks":{"guard":"verif","enable":"go/packages loads /repo with -tags verif; the only hooks are comment-only contract files <pkg>/zz_contracts_verif.go (//go:build verif)","baseline_off_cmd":base['cmd'],"source_commits":src,"add_only":True},
 "engines":[{"name":"govc","path":"/verif/govc","serves_properties":sorted(claims['claimed'].keys()),"kind_free_text":"VC generator over go/ssa (NaiveForm) of the real code + contracts in //@ comments, discharged by z3 4.8.12 / z3-new 5.1.0 / cvc5 1.0"}],
 "checks":checks,
 "notes":"See DESIGN.md. Contracts live in /repo/<pkg>/zz_contracts_verif.go (tag verif) and /verif/specs/*.spec (trusted library contracts). Known findings: /verif/known_findings.json.",
 "not_applicable":na}
json.dump(m,open('/verif/MANIFEST.json','w'),indent=1)
print("claimed:",sorted(claims['claimed'].keys()))
