#!/bin/bash
# usage: tools/import_seed.sh <PROP> <k> <demo package dir (relative, e.g. types)> [demo test regexp]
# Copies /tmp/wt_<PROP>/_seeded/<k> to /verif/seeded/<PROP>-<k>, then confirms in a fresh scratch worktree:
# demo passes at HEAD, patch applies, repo builds, demo fails with the patch, package tests of the
# touched packages give the same per-test results before and after.
set -u
export GOFLAGS=-mod=mod GOPROXY=off GOSUMDB=off GOTOOLCHAIN=local
P=$1; K=$2; PKG=$3; RE=${4:-.}
# SRCROOT (default /tmp/wt_<PROP>) and DSTK (default <k>) allow importing later rounds under new numbers
SRC=${SRCROOT:-/tmp/wt_$P}/_seeded/$K
K=${DSTK:-$K}
DST=/verif/seeded/$P-$K
mkdir -p $DST
[ -n "${KEEP_PATCH:-}" ] || cp $SRC/patch.diff $DST/ 2>/dev/null; cp $SRC/notes.md $DST/ 2>/dev/null
cp $SRC/demo_test.go $DST/ 2>/dev/null || cp $SRC/*_test.go $DST/ 2>/dev/null
W=/tmp/confirm_${P}_${K}
git -C /repo worktree add -q --detach $W HEAD || exit 2
cd $W
DEMO=$(ls $DST/*_test.go | head -1)
cp $DEMO $W/$PKG/zz_seed_demo_test.go
touched=$(grep '^+++ b/' $DST/patch.diff | sed 's#^+++ b/##' | xargs -n1 dirname | sort -u | sed 's#^#./#')
go test -vet=off -count=1 -timeout 10m -run "$RE" ./$PKG/ > /tmp/confirm_${P}_${K}.demo_before.txt 2>&1; before=$?
rm $W/$PKG/zz_seed_demo_test.go
go test -vet=off -count=1 -timeout 20m -json $touched 2>/dev/null | python3 -c "
import json,sys
r={}
for l in sys.stdin:
    try: e=json.loads(l)
    except Exception: continue
    if e.get('Test') and e.get('Action') in ('pass','fail','skip'): r[e['Package']+'::'+e['Test']]=e['Action']
json.dump(r,open('/tmp/confirm_${P}_${K}.tests_before.json','w'))"
git apply $DST/patch.diff; applied=$?
go build ./... > /tmp/confirm_${P}_${K}.build.txt 2>&1
buildok=$(grep -v "^#\|eth_client\|cmd/kaigo\|^/\|relocation\|ld: \|collect2\|link: \|undefined reference\|^$" /tmp/confirm_${P}_${K}.build.txt | grep -c "\.go:[0-9]")
go test -vet=off -count=1 -timeout 20m -json $touched 2>/dev/null | python3 -c "
import json,sys
r={}
for l in sys.stdin:
    try: e=json.loads(l)
    except Exception: continue
    if e.get('Test') and e.get('Action') in ('pass','fail','skip'): r[e['Package']+'::'+e['Test']]=e['Action']
b=json.load(open('/tmp/confirm_${P}_${K}.tests_before.json'))
bad=[k for k,v in b.items() if v=='pass' and r.get(k)!='pass']
print('tests before:',len(b),'after:',len(r),'newly failing:',bad[:10])
open('/tmp/confirm_${P}_${K}.tests_verdict.txt','w').write('OK' if not bad else 'BAD '+str(bad))"
cp $DEMO $W/$PKG/zz_seed_demo_test.go
go test -vet=off -count=1 -timeout 10m -run "$RE" ./$PKG/ > /tmp/confirm_${P}_${K}.demo_after.txt 2>&1; after=$?
verdict=$(cat /tmp/confirm_${P}_${K}.tests_verdict.txt)
echo "seed $P-$K: demo_before_exit=$before (want 0) patch_applied=$applied build_errors=$buildok demo_after_exit=$after (want !=0) tests=$verdict"
python3 - <<PY
import json
json.dump({"property":"$P","id":"$P-$K","demo_package":"$PKG","demo_regexp":"$RE","touched":"""$touched""".split(),
 "confirmed":{"demo_passes_at_HEAD":$before==0,"patch_applies":$applied==0,"compile_errors":$buildok,"demo_fails_with_change":$after!=0,"existing_tests_of_touched_packages_unchanged":"$verdict"=="OK"},
 "what_ran":"fresh scratch worktree of /repo HEAD: go test -run '$RE' ./$PKG/ with the demo before and after git apply patch.diff; go build ./...; go test -json on touched packages before/after compared per test"},
 open("$DST/meta.json","w"),indent=1)
PY
cd /; git -C /repo worktree remove --force $W; rm -f /tmp/confirm_${P}_${K}.* /tmp/*_peer_id.json; rm -rf /tmp/pex_reactor* /tmp/trust_test* 2>/dev/null
