package main

// Translation of spec expressions into SMT terms (pure: never touches the script).

import (
	"fmt"
	"go/constant"
	"go/types"
	"math/big"
	"sort"
	"strconv"
	"strings"
)

type Env struct {
	x      *Executor
	u      *Unit
	vars   map[string]Val
	bound  map[string]Val
	st     *State
	old    *State
	pkg    *types.Package
	locals func(name string) (Val, bool)
	// when translating spec function / lemma bodies the heap is a set of symbols
	heapSyms    map[string]string
	oldHeapSyms map[string]string
	footprint   map[string]bool
	selfName    string
	selfHeap    []string
	inOld       bool
	preEnv      *Env // loop invariants: environment of the state on loop entry, for pre(e)
	// localsAfter: source-level locals consulted after parameters and results (ensures, at-call)
	localsAfter func(name string) (Val, bool)
	outerVars   map[string]Val // at-call clauses: the caller's parameters (reachable with outer(x))
	entryVars   map[string]Val // at-call clauses: entry values of the caller's parameters (for old())
}

func (e *Env) child() *Env {
	n := *e
	n.bound = map[string]Val{}
	for k, v := range e.bound {
		n.bound[k] = v
	}
	return &n
}

func (e *Env) heap(comp string) string {
	if e.footprint != nil {
		e.footprint[comp] = true
	}
	if e.heapSyms != nil {
		hs := e.heapSyms
		if e.inOld && e.oldHeapSyms != nil {
			hs = e.oldHeapSyms
		}
		if s, ok := hs[comp]; ok {
			return s
		}
		// placeholder during footprint pass
		pre := "hp$"
		if e.inOld && e.oldHeapSyms != nil {
			pre = "ho$"
		}
		s := q(pre + comp)
		hs[comp] = s
		return s
	}
	st := e.st
	if e.inOld && e.old != nil {
		st = e.old
	}
	return e.x.heapGet(st, comp)
}

var untypedNil = types.Typ[types.UntypedNil]

func (e *Env) errf(format string, a ...interface{}) error {
	return fmt.Errorf("spec: "+format, a...)
}

func (e *Env) Eval(ex Expr) (Val, error) {
	u := e.u
	switch t := ex.(type) {
	case *ELit:
		switch t.Kind {
		case "int":
			n, ok := new(big.Int).SetString(t.Val, 0)
			if !ok {
				return Val{}, e.errf("bad integer %s", t.Val)
			}
			return Val{T: smtInt(n), Ty: mathInt}, nil
		case "string":
			s, err := strconv.Unquote(t.Val)
			if err != nil {
				return Val{}, err
			}
			return Val{T: u.strLit(s), Ty: types.Typ[types.String]}, nil
		case "char":
			s, _, _, err := strconv.UnquoteChar(t.Val[1:len(t.Val)-1], '\'')
			if err != nil {
				return Val{}, err
			}
			return Val{T: fmt.Sprintf("%d", s), Ty: mathInt}, nil
		}
	case *EIdent:
		return e.evalIdent(t.Name)
	case *EUnary:
		if t.Op == "&" {
			return Val{}, e.errf("address-of not supported in specs")
		}
		v, err := e.Eval(t.X)
		if err != nil {
			return Val{}, err
		}
		switch t.Op {
		case "!":
			return Val{T: "(not " + v.T + ")", Ty: types.Typ[types.Bool]}, nil
		case "-":
			return Val{T: "(- " + v.T + ")", Ty: mathInt}, nil
		case "+":
			return v, nil
		case "*":
			return e.derefVal(v)
		}
	case *EBinary:
		return e.evalBinary(t)
	case *ESel:
		return e.evalSel(t)
	case *EIndex:
		return e.evalIndex(t)
	case *ESlice:
		// slicing an array-typed field of a struct object (obj.F[:], obj.A.B[:]): the backing array
		// is the field's derived reference
		if sel, ok := t.X.(*ESel); ok && e.x != nil && t.Lo == nil && t.Hi == nil {
			if ref, sty, ok := e.x.lvalRef(e, sel.X); ok {
				if fty := fieldType(e.u, sty, sel.Name); fty != nil {
					if at, isA := fty.Underlying().(*types.Array); isA {
						return Val{T: fmt.Sprintf("(mk-slice %s 0 %d %d)", e.u.subRef(sty, sel.Name, ref), at.Len(), at.Len()), Ty: types.NewSlice(at.Elem())}, nil
					}
				}
			}
		}
		v, err := e.Eval(t.X)
		if err != nil {
			return Val{}, err
		}
		lo, hi := "0", ""
		if t.Lo != nil {
			l, err := e.Eval(t.Lo)
			if err != nil {
				return Val{}, err
			}
			lo = l.T
		}
		if pt, ok := v.Ty.Underlying().(*types.Pointer); ok {
			// slicing a pointer to an array: the backing array is the pointed-to object
			if at, isA := pt.Elem().Underlying().(*types.Array); isA {
				hi = fmt.Sprintf("%d", at.Len())
				if t.Hi != nil {
					h, err := e.Eval(t.Hi)
					if err != nil {
						return Val{}, err
					}
					hi = h.T
				}
				return Val{T: fmt.Sprintf("(mk-slice %s %s (- %s %s) (- %d %s))", v.T, lo, hi, lo, at.Len(), lo), Ty: types.NewSlice(at.Elem())}, nil
			}
		}
		if _, ok := v.Ty.Underlying().(*types.Slice); !ok {
			return Val{}, e.errf("slice expression on %s", v.Ty)
		}
		if t.Hi != nil {
			h, err := e.Eval(t.Hi)
			if err != nil {
				return Val{}, err
			}
			hi = h.T
		} else {
			hi = fmt.Sprintf("(s.len %s)", v.T)
		}
		return Val{T: fmt.Sprintf("(mk-slice (s.base %[1]s) (+ (s.off %[1]s) %[2]s) (- %[3]s %[2]s) (- (s.cap %[1]s) %[2]s))", v.T, lo, hi), Ty: v.Ty}, nil
	case *ECall:
		return e.evalCall(t)
	case *EQuant:
		c := e.child()
		var binders []string
		for _, qv := range t.Vars {
			ty, err := u.resolveType(qv.Type, e.pkg)
			if err != nil {
				return Val{}, err
			}
			name := "q$" + qv.Name
			c.bound[qv.Name] = Val{T: name, Ty: ty}
			binders = append(binders, fmt.Sprintf("(%s %s)", name, u.sortOf(ty)))
		}
		body, err := c.Eval(t.Body)
		if err != nil {
			return Val{}, err
		}
		kw := "exists"
		if t.Forall {
			kw = "forall"
		}
		bodyT := body.T
		if len(t.Vars) == 1 {
			// triggers: every slice-index term over the bound variable (the smallest terms mentioning
			// it), so that the quantifier is instantiated for any index of the same slice that occurs
			// in the goal, whatever heap version the goal reads it from
			if pats := sidxPatterns(bodyT, "q$"+t.Vars[0].Name); len(pats) > 0 && len(pats) <= 4 {
				var ps []string
				for _, p := range pats {
					ps = append(ps, ":pattern ("+p+")")
				}
				bodyT = fmt.Sprintf("(! %s %s)", bodyT, strings.Join(ps, " "))
			}
		} else if len(t.Vars) == 2 {
			// two index variables: one multi-pattern made of a slice-index term for each
			pa := sidxPatterns(bodyT, "q$"+t.Vars[0].Name)
			pb := sidxPatterns(bodyT, "q$"+t.Vars[1].Name)
			if len(pa) > 0 && len(pb) > 0 {
				bodyT = fmt.Sprintf("(! %s :pattern (%s %s))", bodyT, pa[0], pb[0])
			}
		}
		return Val{T: fmt.Sprintf("(%s (%s) %s)", kw, strings.Join(binders, " "), bodyT), Ty: types.Typ[types.Bool]}, nil
	case *EComposite:
		ty, err := u.resolveType(t.Type, e.pkg)
		if err != nil {
			return Val{}, err
		}
		if _, isArr := ty.Underlying().(*types.Array); isArr && len(t.Fields) == 0 {
			return Val{T: u.zeroOf(ty), Ty: ty}, nil
		}
		st, ok := ty.Underlying().(*types.Struct)
		if !ok {
			return Val{}, e.errf("composite literal of non-struct %s", ty)
		}
		u.sortOf(ty)
		parts := make([]string, st.NumFields())
		for i := range parts {
			parts[i] = u.zeroOf(st.Field(i).Type())
		}
		for i, f := range t.Fields {
			v, err := e.Eval(f.Val)
			if err != nil {
				return Val{}, err
			}
			idx := i
			if f.Name != "" {
				idx = -1
				for j := 0; j < st.NumFields(); j++ {
					if st.Field(j).Name() == f.Name {
						idx = j
					}
				}
				if idx < 0 {
					return Val{}, e.errf("no field %s in %s", f.Name, ty)
				}
			}
			parts[idx] = e.coerce(v, st.Field(idx).Type()).T
		}
		for _, g := range u.ghostFields(ty) {
			parts = append(parts, u.zeroOf(g.ty))
		}
		if len(parts) == 0 {
			return Val{T: u.structCtor(ty), Ty: ty}, nil
		}
		return Val{T: "(" + u.structCtor(ty) + " " + strings.Join(parts, " ") + ")", Ty: ty}, nil
	}
	return Val{}, e.errf("cannot evaluate %s", ex.String())
}

// coerce adapts nil to the target type.
func (e *Env) coerce(v Val, ty types.Type) Val {
	if v.Ty == untypedNil && ty != nil {
		return Val{T: e.u.zeroOf(ty), Ty: ty}
	}
	return v
}

func (e *Env) evalIdent(name string) (Val, error) {
	u := e.u
	if v, ok := e.bound[name]; ok {
		return v, nil
	}
	if e.inOld && e.entryVars != nil {
		if v, ok := e.entryVars[name]; ok {
			return v, nil
		}
	}
	if e.locals != nil && !e.inOld {
		if v, ok := e.locals(name); ok {
			return v, nil
		}
	}
	if v, ok := e.vars[name]; ok {
		return v, nil
	}
	// inside old(): a local that is not a parameter has no entry value; its current value is meant
	// (only the heap is the entry heap)
	if e.locals != nil && e.inOld {
		if v, ok := e.locals(name); ok {
			return v, nil
		}
	}
	if e.localsAfter != nil {
		if v, ok := e.localsAfter(name); ok {
			return v, nil
		}
	}
	switch name {
	case "nil":
		return Val{T: "nil", Ty: untypedNil}, nil
	case "true", "false":
		return Val{T: name, Ty: types.Typ[types.Bool]}, nil
	}
	if e.pkg != nil {
		if obj := e.pkg.Scope().Lookup(name); obj != nil {
			return e.objVal(obj)
		}
	}
	if obj := types.Universe.Lookup(name); obj != nil {
		if c, ok := obj.(*types.Const); ok {
			return Val{T: u.constTerm(c.Val(), c.Type()), Ty: c.Type()}, nil
		}
	}
	return Val{}, e.errf("unknown identifier %q", name)
}

func (e *Env) objVal(obj types.Object) (Val, error) {
	u := e.u
	switch o := obj.(type) {
	case *types.Const:
		ty := o.Type()
		if b, ok := ty.(*types.Basic); ok && b.Info()&types.IsUntyped != 0 {
			if o.Val().Kind() == constant.Int {
				ty = mathInt
			}
		}
		return Val{T: u.constTerm(o.Val(), o.Type()), Ty: ty}, nil
	case *types.Var:
		comp, _ := u.globalComp(o.Pkg().Path(), o.Name(), o.Type())
		return Val{T: e.heap(comp), Ty: o.Type()}, nil
	}
	return Val{}, e.errf("identifier %s is not a value", obj.Name())
}

func (e *Env) derefVal(v Val) (Val, error) {
	u := e.u
	if v.Addr != nil {
		return e.loadAddr(v.Addr)
	}
	pt, ok := v.Ty.Underlying().(*types.Pointer)
	if !ok {
		return Val{}, e.errf("dereference of non-pointer %s", v.Ty)
	}
	et := pt.Elem()
	if _, isS := et.Underlying().(*types.Struct); isS {
		return Val{T: u.structObjTerm(e.heap, v.T, et), Ty: et}, nil
	}
	if at, isA := et.Underlying().(*types.Array); isA {
		comp, _ := u.elemComp(at.Elem())
		return Val{T: fmt.Sprintf("(select %s %s)", e.heap(comp), v.T), Ty: et}, nil
	}
	comp, _ := u.cellComp(et)
	return Val{T: fmt.Sprintf("(select %s %s)", e.heap(comp), v.T), Ty: et}, nil
}

// loadAddr: pure load through a symbolic address.
func (e *Env) loadAddr(a *Addr) (Val, error) {
	u := e.u
	var root string
	switch a.Kind {
	case "local":
		st := e.st
		if e.inOld && e.old != nil {
			st = e.old
		}
		if st == nil {
			return Val{}, e.errf("local address in a stateless context")
		}
		v, ok := st.locals[a.Local]
		if !ok {
			root = u.zeroOf(a.Local.alloc.Type().(*types.Pointer).Elem())
		} else {
			if v.Addr != nil && len(a.Path) == 0 {
				return v, nil
			}
			root = v.T
		}
	case "field":
		comp, _ := u.fieldComp(a.Struct, a.Field)
		root = fmt.Sprintf("(select %s %s)", e.heap(comp), a.Ref)
	case "elem":
		comp, _ := u.elemComp(a.ElemT)
		root = fmt.Sprintf("(select (select %s %s) %s)", e.heap(comp), a.Ref, a.Idx)
	case "cell":
		comp, _ := u.cellComp(a.CellT)
		root = fmt.Sprintf("(select %s %s)", e.heap(comp), a.Ref)
	case "global":
		root = e.heap(a.Global)
	case "structobj":
		return e.derefVal(Val{T: a.Ref, Ty: types.NewPointer(a.Struct)})
	case "arrobj":
		comp, _ := u.elemComp(a.ElemT)
		return Val{T: fmt.Sprintf("(select %s %s)", e.heap(comp), a.Ref), Ty: a.Ty}, nil
	default:
		return Val{}, e.errf("bad address kind %s", a.Kind)
	}
	return Val{T: e.x.applyPath(root, nil, a.Path), Ty: a.Ty}, nil
}

func (e *Env) evalSel(t *ESel) (Val, error) {
	u := e.u
	// qualified identifier pkg.Name
	if id, ok := t.X.(*EIdent); ok {
		if _, isVar := e.bound[id.Name]; !isVar {
			_, isV2 := e.vars[id.Name]
			isLocal := false
			if e.locals != nil {
				_, isLocal = e.locals(id.Name)
			}
			if !isV2 && !isLocal {
				if p := u.findImport(e.pkg, id.Name); p != nil {
					obj := p.Scope().Lookup(t.Name)
					if obj == nil {
						return Val{}, e.errf("%s.%s not found", id.Name, t.Name)
					}
					return e.objVal(obj)
				}
			}
		}
	}
	v, err := e.Eval(t.X)
	if err != nil {
		return Val{}, err
	}
	return e.selectField(v, t.Name)
}

func (e *Env) selectField(v Val, name string) (Val, error) {
	u := e.u
	if v.Ty == nil {
		return Val{}, e.errf("selector .%s on untyped value", name)
	}
	// ghost fields
	base := v.Ty
	if pt, ok := base.Underlying().(*types.Pointer); ok {
		base = pt.Elem()
	}
	for _, g := range u.ghostFields(base) {
		if g.name == name {
			if _, isIface := v.Ty.Underlying().(*types.Interface); isIface {
				comp, _ := u.fieldComp(base, name)
				return Val{T: fmt.Sprintf("(select %s (i.val %s))", e.heap(comp), v.T), Ty: g.ty}, nil
			}
			if _, isPtr := v.Ty.Underlying().(*types.Pointer); isPtr {
				comp, _ := u.fieldComp(base, name)
				return Val{T: fmt.Sprintf("(select %s %s)", e.heap(comp), v.T), Ty: g.ty}, nil
			}
			u.sortOf(base)
			return Val{T: fmt.Sprintf("(%s %s)", q(u.structName(base)+"$"+name), v.T), Ty: g.ty}, nil
		}
	}
	obj, index, _ := types.LookupFieldOrMethod(v.Ty, true, e.pkg, name)
	if obj == nil {
		// try unexported field from the type's own package
		if n, ok := base.(*types.Named); ok && n.Obj().Pkg() != nil {
			obj, index, _ = types.LookupFieldOrMethod(v.Ty, true, n.Obj().Pkg(), name)
		}
	}
	fld, ok := obj.(*types.Var)
	if !ok || fld == nil {
		return Val{}, e.errf("no field %s in %s", name, v.Ty)
	}
	cur := v
	interior := false
	_ = interior
	for k, idx := range index {
		ty := cur.Ty
		if pt, isPtr := ty.Underlying().(*types.Pointer); isPtr && cur.Addr == nil {
			st := pt.Elem().Underlying().(*types.Struct)
			ft := st.Field(idx).Type()
			if isFlattened(ft) {
				sub := Val{T: u.subRef(pt.Elem(), st.Field(idx).Name(), cur.T), Ty: types.NewPointer(ft)}
				if k == len(index)-1 {
					return e.derefVal(sub)
				}
				// continue through the nested object by reference
				cur = sub
				interior = true
				continue
			}
			comp, _ := u.fieldComp(pt.Elem(), st.Field(idx).Name())
			cur = Val{T: fmt.Sprintf("(select %s %s)", e.heap(comp), cur.T), Ty: ft}
			interior = false
			continue
		}
		if cur.Addr != nil {
			// symbolic pointer: extend and load
			pt := ty.Underlying().(*types.Pointer)
			st := pt.Elem().Underlying().(*types.Struct)
			var a *Addr
			if cur.Addr.Kind == "structobj" {
				a = &Addr{Kind: "field", Ref: cur.Addr.Ref, Struct: pt.Elem(), Field: st.Field(idx).Name(), Ty: st.Field(idx).Type()}
			} else {
				a = cur.Addr.extend(pathStep{field: idx, structT: pt.Elem()}, st.Field(idx).Type())
			}
			lv, err := e.loadAddr(a)
			if err != nil {
				return Val{}, err
			}
			cur = lv
			continue
		}
		st, isS := ty.Underlying().(*types.Struct)
		if !isS {
			return Val{}, e.errf("field path through non-struct %s", ty)
		}
		u.sortOf(ty)
		cur = Val{T: fmt.Sprintf("(%s %s)", u.fieldAcc(ty, idx), cur.T), Ty: st.Field(idx).Type()}
	}
	return cur, nil
}

func (e *Env) evalIndex(t *EIndex) (Val, error) {
	u := e.u
	v, err := e.Eval(t.X)
	if err != nil {
		return Val{}, err
	}
	i, err := e.Eval(t.I)
	if err != nil {
		return Val{}, err
	}
	if gm := u.eng.isGhostMap(v.Ty); gm != nil {
		return Val{T: fmt.Sprintf("(select %s %s)", v.T, e.coerce(i, gm.Key()).T), Ty: gm.Elem()}, nil
	}
	switch tt := v.Ty.Underlying().(type) {
	case *types.Slice:
		comp, _ := u.elemComp(tt.Elem())
		return Val{T: fmt.Sprintf("(select (select %s (s.base %s)) (sidx (s.off %s) %s))", e.heap(comp), v.T, v.T, i.T), Ty: tt.Elem()}, nil
	case *types.Array:
		return Val{T: fmt.Sprintf("(select %s %s)", v.T, i.T), Ty: tt.Elem()}, nil
	case *types.Map:
		_, val, _ := u.mapComps(tt)
		return Val{T: fmt.Sprintf("(select (select %s %s) %s)", e.heap(val), v.T, e.coerce(i, tt.Key()).T), Ty: tt.Elem()}, nil
	case *types.Basic:
		if isString(v.Ty) {
			return Val{T: fmt.Sprintf("(strat %s %s)", v.T, i.T), Ty: mathInt}, nil
		}
	case *types.Pointer:
		if at, ok := tt.Elem().Underlying().(*types.Array); ok {
			if v.Addr != nil {
				// interior pointer known symbolically (e.g. &s[i] of a slice of arrays): load the array value
				av, err := e.loadAddr(v.Addr)
				if err != nil {
					return Val{}, err
				}
				return Val{T: fmt.Sprintf("(select %s %s)", av.T, i.T), Ty: at.Elem()}, nil
			}
			comp, _ := u.elemComp(at.Elem())
			return Val{T: fmt.Sprintf("(select (select %s %s) %s)", e.heap(comp), v.T, i.T), Ty: at.Elem()}, nil
		}
	}
	return Val{}, e.errf("cannot index %s", v.Ty)
}

func pow2Term(k string) string {
	if n, ok := new(big.Int).SetString(k, 10); ok && n.Sign() >= 0 && n.IsInt64() && n.Int64() <= 256 {
		return new(big.Int).Lsh(big.NewInt(1), uint(n.Int64())).String()
	}
	return fmt.Sprintf("(pow2 %s)", k)
}

func isNumeric(t types.Type) bool {
	return t == mathInt || isInteger(t)
}

func (e *Env) evalBinary(t *EBinary) (Val, error) {
	u := e.u
	a, err := e.Eval(t.X)
	if err != nil {
		return Val{}, err
	}
	b, err := e.Eval(t.Y)
	if err != nil {
		return Val{}, err
	}
	bl := types.Typ[types.Bool]
	switch t.Op {
	case "&&":
		return Val{T: fmt.Sprintf("(and %s %s)", a.T, b.T), Ty: bl}, nil
	case "||":
		return Val{T: fmt.Sprintf("(or %s %s)", a.T, b.T), Ty: bl}, nil
	case "==>":
		return Val{T: fmt.Sprintf("(=> %s %s)", a.T, b.T), Ty: bl}, nil
	case "<==>":
		return Val{T: fmt.Sprintf("(= %s %s)", a.T, b.T), Ty: bl}, nil
	case "==", "!=":
		var eq string
		switch {
		case a.Ty == untypedNil && b.Ty == untypedNil:
			eq = "true"
		case a.Ty == untypedNil && b.Addr != nil, b.Ty == untypedNil && a.Addr != nil:
			// an address the executor built (a local, a field or an element) is never nil
			eq = "false"
		case a.Ty == untypedNil:
			eq = u.equalTerms(u.zeroOf(b.Ty), b.T, b.Ty)
		case b.Ty == untypedNil:
			eq = u.equalTerms(a.T, u.zeroOf(a.Ty), a.Ty)
		default:
			ty := a.Ty
			if ty == mathInt {
				ty = b.Ty
			}
			if a.Addr != nil || b.Addr != nil {
				return Val{}, e.errf("comparison of symbolic addresses in spec")
			}
			eq = u.equalTerms(a.T, b.T, ty)
		}
		if t.Op == "!=" {
			eq = "(not " + eq + ")"
		}
		return Val{T: eq, Ty: bl}, nil
	case "<", "<=", ">", ">=":
		if isString(a.Ty) {
			switch t.Op {
			case "<":
				return Val{T: fmt.Sprintf("(strlt %s %s)", a.T, b.T), Ty: bl}, nil
			case ">":
				return Val{T: fmt.Sprintf("(strlt %s %s)", b.T, a.T), Ty: bl}, nil
			case "<=":
				return Val{T: fmt.Sprintf("(not (strlt %s %s))", b.T, a.T), Ty: bl}, nil
			default:
				return Val{T: fmt.Sprintf("(not (strlt %s %s))", a.T, b.T), Ty: bl}, nil
			}
		}
		return Val{T: fmt.Sprintf("(%s %s %s)", t.Op, a.T, b.T), Ty: bl}, nil
	case "+":
		if isString(a.Ty) {
			return Val{T: fmt.Sprintf("(strcat %s %s)", a.T, b.T), Ty: a.Ty}, nil
		}
		return Val{T: fmt.Sprintf("(+ %s %s)", a.T, b.T), Ty: mathInt}, nil
	case "-":
		return Val{T: fmt.Sprintf("(- %s %s)", a.T, b.T), Ty: mathInt}, nil
	case "*":
		return Val{T: mulTerm(a.T, b.T), Ty: mathInt}, nil
	case "/":
		return Val{T: divTerm(a.T, b.T), Ty: mathInt}, nil
	case "%":
		return Val{T: modTerm(a.T, b.T), Ty: mathInt}, nil
	case "<<":
		return Val{T: fmt.Sprintf("(* %s %s)", a.T, pow2Term(b.T)), Ty: mathInt}, nil
	case ">>":
		return Val{T: fmt.Sprintf("(div %s %s)", a.T, pow2Term(b.T)), Ty: mathInt}, nil
	case "&":
		// two literals: computed
		if x, okx := new(big.Int).SetString(a.T, 10); okx && x.Sign() >= 0 {
			if y, oky := new(big.Int).SetString(b.T, 10); oky && y.Sign() >= 0 {
				return Val{T: new(big.Int).And(x, y).String(), Ty: mathInt}, nil
			}
		}
		// a single-bit mask: (a / 2^k) mod 2 * 2^k
		if y, oky := new(big.Int).SetString(b.T, 10); oky && y.Sign() > 0 && new(big.Int).And(y, new(big.Int).Sub(y, big.NewInt(1))).Sign() == 0 {
			return Val{T: fmt.Sprintf("(* (mod (div %s %s) 2) %s)", a.T, y.String(), y.String()), Ty: mathInt}, nil
		}
		if m, ok := maskBits(b.T); ok {
			return Val{T: fmt.Sprintf("(mod %s %s)", a.T, m), Ty: mathInt}, nil
		}
		return Val{T: fmt.Sprintf("(bitand %s %s)", a.T, b.T), Ty: mathInt}, nil
	case "|":
		return Val{T: fmt.Sprintf("(bitor %s %s)", a.T, b.T), Ty: mathInt}, nil
	case "^":
		return Val{T: fmt.Sprintf("(bitxor %s %s)", a.T, b.T), Ty: mathInt}, nil
	}
	return Val{}, e.errf("unsupported operator %s", t.Op)
}

func (e *Env) evalCall(t *ECall) (Val, error) {
	u := e.u
	// conversions with a syntactic type
	if te, ok := t.Fun.(*ETypeExpr); ok {
		return e.conversion(te.T, t.Args)
	}
	var fname, fpkg string
	switch f := t.Fun.(type) {
	case *EIdent:
		fname = f.Name
	case *ESel:
		if id, ok := f.X.(*EIdent); ok {
			if p := u.findImport(e.pkg, id.Name); p != nil {
				fpkg, fname = p.Path(), f.Name
				// type conversion pkg.T(x)
				if tn, ok := p.Scope().Lookup(f.Name).(*types.TypeName); ok {
					return e.convertTo(tn.Type(), t.Args)
				}
			}
		}
		if fname == "" {
			return e.evalMethodCall(f, t.Args)
		}
	case *EUnary:
		if ty := exprToType(f); ty != nil {
			return e.conversion(ty, t.Args)
		}
	}
	if fname == "" {
		return Val{}, e.errf("cannot call %s", t.Fun.String())
	}
	if fpkg == "" {
		switch fname {
		case "outer":
			// outer(x) inside an at-call clause: the caller's parameter or local x
			if id, ok := t.Args[0].(*EIdent); ok && len(t.Args) == 1 {
				if v, ok := e.outerVars[id.Name]; ok {
					return v, nil
				}
				if e.localsAfter != nil {
					if v, ok := e.localsAfter(id.Name); ok {
						return v, nil
					}
				}
				return Val{}, e.errf("outer(%s): no such parameter or local of the caller", id.Name)
			}
			return Val{}, e.errf("outer() takes one identifier")
		case "old":
			if len(t.Args) != 1 {
				return Val{}, e.errf("old takes one argument")
			}
			c := *e
			c.inOld = true
			if c.old == nil && c.oldHeapSyms == nil {
				return Val{}, e.errf("old() not available in this context")
			}
			return c.Eval(t.Args[0])
		case "pre":
			if e.preEnv == nil || len(t.Args) != 1 {
				return Val{}, e.errf("pre() is only available in loop invariants")
			}
			pe := *e.preEnv
			pe.bound = e.bound
			return pe.Eval(t.Args[0])
		case "len", "cap":
			v, err := e.Eval(t.Args[0])
			if err != nil {
				return Val{}, err
			}
			switch tt := v.Ty.Underlying().(type) {
			case *types.Slice:
				return Val{T: fmt.Sprintf("(s.%s %s)", fname, v.T), Ty: mathInt}, nil
			case *types.Array:
				return Val{T: fmt.Sprintf("%d", tt.Len()), Ty: mathInt}, nil
			case *types.Map:
				_, _, ln := u.mapComps(tt)
				return Val{T: fmt.Sprintf("(select %s %s)", e.heap(ln), v.T), Ty: mathInt}, nil
			case *types.Basic:
				if isString(v.Ty) {
					return Val{T: fmt.Sprintf("(strlen %s)", v.T), Ty: mathInt}, nil
				}
			}
			return Val{}, e.errf("len of %s", v.Ty)
		case "ite":
			if len(t.Args) != 3 {
				return Val{}, e.errf("ite takes three arguments")
			}
			c, err := e.Eval(t.Args[0])
			if err != nil {
				return Val{}, err
			}
			a, err := e.Eval(t.Args[1])
			if err != nil {
				return Val{}, err
			}
			b, err := e.Eval(t.Args[2])
			if err != nil {
				return Val{}, err
			}
			ty := a.Ty
			if ty == untypedNil {
				ty = b.Ty
			}
			a, b = e.coerce(a, ty), e.coerce(b, ty)
			if ty == mathInt && b.Ty != mathInt && b.Ty != nil {
				ty = mathInt
			}
			return Val{T: fmt.Sprintf("(ite %s %s %s)", c.T, a.T, b.T), Ty: ty}, nil
		case "min", "max", "abs":
			var args []string
			for _, a := range t.Args {
				v, err := e.Eval(a)
				if err != nil {
					return Val{}, err
				}
				args = append(args, v.T)
			}
			return Val{T: fmt.Sprintf("(i%s %s)", fname, strings.Join(args, " ")), Ty: mathInt}, nil
		case "has":
			m, err := e.Eval(t.Args[0])
			if err != nil {
				return Val{}, err
			}
			k, err := e.Eval(t.Args[1])
			if err != nil {
				return Val{}, err
			}
			mt, ok := m.Ty.Underlying().(*types.Map)
			if !ok {
				return Val{}, e.errf("has() on non-map")
			}
			pres, _, _ := u.mapComps(mt)
			return Val{T: fmt.Sprintf("(and (not (= %s 0)) (select (select %s %s) %s))", m.T, e.heap(pres), m.T, e.coerce(k, mt.Key()).T), Ty: types.Typ[types.Bool]}, nil
		case "allocated", "fresh":
			v, err := e.Eval(t.Args[0])
			if err != nil {
				return Val{}, err
			}
			u.ensureAllocComp()
			ref := v.T
			if _, ok := v.Ty.Underlying().(*types.Slice); ok {
				ref = fmt.Sprintf("(s.base %s)", v.T)
			}
			if fname == "allocated" {
				return Val{T: fmt.Sprintf("(select %s (refroot %s))", e.heap(allocComp), ref), Ty: types.Typ[types.Bool]}, nil
			}
			c := *e
			c.inOld = true
			return Val{T: fmt.Sprintf("(and (not (= %[1]s 0)) (= (refroot %[1]s) %[1]s) (= (refkind %[1]s) 0) (not (select %[2]s %[1]s)) (select %[3]s %[1]s))", ref, c.heap(allocComp), e.heap(allocComp)), Ty: types.Typ[types.Bool]}, nil
		case "arg":
			// arg(f, i): the i-th argument (receiver first) of the (most recent / k-th) call to f
			if e.x == nil || len(t.Args) != 2 {
				return Val{}, e.errf("arg(f, i) needs an executing function")
			}
			nm := callName(t.Args[0])
			lit, ok := t.Args[1].(*ELit)
			if nm == "" || !ok {
				return Val{}, e.errf("arg(f, i): f must be a function name and i a literal")
			}
			as, ok := e.x.callArgs[nm]
			n, err := strconv.Atoi(lit.Val)
			if !ok || err != nil || n < 0 || n >= len(as) {
				return Val{}, e.errf("arg(%s, %s): no such call or argument", nm, lit.Val)
			}
			return as[n], nil
		case "called":
			// called(f): the path condition under which the (most recent / k-th, "f#k") call to f made
			// by the function under contract is reached -- for "whenever X happened, f was called"
			if e.x == nil || len(t.Args) != 1 {
				return Val{}, e.errf("called(f) needs an executing function")
			}
			nm := callName(t.Args[0])
			if nm == "" {
				return Val{}, e.errf("called(f): f must be a function name")
			}
			r, ok := e.x.callReach[nm]
			if !ok {
				return Val{T: "false", Ty: types.Typ[types.Bool]}, nil
			}
			return Val{T: r, Ty: types.Typ[types.Bool]}, nil
		case "result":
			// result(f) / result(f, i): the (i-th) result of the most recent call to f made by the
			// function under contract before this point (for at-call clauses about data flow)
			if e.x == nil || len(t.Args) == 0 {
				return Val{}, e.errf("result() needs an executing function")
			}
			fnm := callName(t.Args[0])
			if fnm == "" {
				return Val{}, e.errf("result(f): f must be a function name")
			}
			id := &EIdent{Name: fnm}
			rv, ok := e.x.callResults[id.Name]
			if !ok {
				return Val{}, e.errf("result(%s): no call to %s was executed before this point", id.Name, id.Name)
			}
			if len(t.Args) == 2 {
				lit, ok := t.Args[1].(*ELit)
				n, err := strconv.Atoi(func() string { if ok { return lit.Val }; return "x" }())
				if err != nil || n < 0 || n >= len(rv.Tup) {
					return Val{}, e.errf("result(%s, i): bad result index", id.Name)
				}
				return rv.Tup[n], nil
			}
			return rv, nil
		case "sameArray":
			// sameArray(a, b): two slices share their backing array
			a, err := e.Eval(t.Args[0])
			if err != nil {
				return Val{}, err
			}
			b, err := e.Eval(t.Args[1])
			if err != nil {
				return Val{}, err
			}
			return Val{T: fmt.Sprintf("(= (s.base %s) (s.base %s))", a.T, b.T), Ty: types.Typ[types.Bool]}, nil
		case "toInt64":
			v, err := e.Eval(t.Args[0])
			if err != nil {
				return Val{}, err
			}
			return Val{T: fmt.Sprintf("(wraps %s 9223372036854775808)", v.T), Ty: mathInt}, nil
		case "toUint32":
			v, err := e.Eval(t.Args[0])
			if err != nil {
				return Val{}, err
			}
			return Val{T: fmt.Sprintf("(wrapu %s 4294967296)", v.T), Ty: mathInt}, nil
		case "toUint64":
			v, err := e.Eval(t.Args[0])
			if err != nil {
				return Val{}, err
			}
			return Val{T: fmt.Sprintf("(wrapu %s 18446744073709551616)", v.T), Ty: mathInt}, nil
		case "idiv", "imod":
			// interpreted (Euclidean/truncating by sign) division for lemmas that reason about it
			a, err := e.Eval(t.Args[0])
			if err != nil {
				return Val{}, err
			}
			b, err := e.Eval(t.Args[1])
			if err != nil {
				return Val{}, err
			}
			if fname == "idiv" {
				return Val{T: fmt.Sprintf("(tdiv %s %s)", a.T, b.T), Ty: mathInt}, nil
			}
			return Val{T: fmt.Sprintf("(tmod %s %s)", a.T, b.T), Ty: mathInt}, nil
		case "upd":
			m, err := e.Eval(t.Args[0])
			if err != nil {
				return Val{}, err
			}
			k, err := e.Eval(t.Args[1])
			if err != nil {
				return Val{}, err
			}
			v, err := e.Eval(t.Args[2])
			if err != nil {
				return Val{}, err
			}
			gm := u.eng.isGhostMap(m.Ty)
			if gm == nil {
				return Val{}, e.errf("upd() on non-gmap")
			}
			return Val{T: fmt.Sprintf("(store %s %s %s)", m.T, e.coerce(k, gm.Key()).T, e.coerce(v, gm.Elem()).T), Ty: m.Ty}, nil
		case "pow2":
			v, err := e.Eval(t.Args[0])
			if err != nil {
				return Val{}, err
			}
			return Val{T: fmt.Sprintf("(pow2 %s)", v.T), Ty: mathInt}, nil
		case "dyntype":
			// dyntype(iface) == typeid(T) style comparisons: returns the tag
			v, err := e.Eval(t.Args[0])
			if err != nil {
				return Val{}, err
			}
			return Val{T: fmt.Sprintf("(i.tag %s)", v.T), Ty: mathInt}, nil
		case "typeid":
			ty := exprToType(t.Args[0])
			if ty == nil {
				return Val{}, e.errf("typeid needs a type")
			}
			rt, err := u.resolveType(ty, e.pkg)
			if err != nil {
				return Val{}, err
			}
			return Val{T: u.typeTag(rt), Ty: mathInt}, nil
		case "unbox":
			// unbox(iface, T): the dynamic value as T
			v, err := e.Eval(t.Args[0])
			if err != nil {
				return Val{}, err
			}
			ty := exprToType(t.Args[1])
			rt, err := u.resolveType(ty, e.pkg)
			if err != nil {
				return Val{}, err
			}
			return Val{T: e.x.unboxIface(v.T, rt), Ty: rt}, nil
		case "content":
			// content(b []byte): abstract value of the byte content (functional in the bytes)
			v, err := e.Eval(t.Args[0])
			if err != nil {
				return Val{}, err
			}
			return e.contentOf(v)
		}
		// type conversion T(x)
		if e.pkg != nil {
			if tn, ok := e.pkg.Scope().Lookup(fname).(*types.TypeName); ok {
				return e.convertTo(tn.Type(), t.Args)
			}
		}
		if tn, ok := types.Universe.Lookup(fname).(*types.TypeName); ok {
			return e.convertTo(tn.Type(), t.Args)
		}
		if fname == "mathint" {
			return e.convertTo(mathInt, t.Args)
		}
	}
	// spec function
	sf := u.eng.specs.lookupFunc(e.pkg, fpkg, fname)
	if sf == nil {
		return Val{}, e.errf("unknown function %s", fname)
	}
	return e.callSpecFunc(sf, t.Args)
}

func (e *Env) contentOf(v Val) (Val, error) {
	u := e.u
	if at, isArr := v.Ty.Underlying().(*types.Array); isArr {
		u.declRaw("sort$Content", "(declare-sort Content 0)")
		es := u.sortOf(at.Elem())
		fn := q("content$" + shortType(at.Elem()))
		u.declareFun(fn, []string{"(Array Int " + es + ")", "Int", "Int"}, "Content")
		return Val{T: fmt.Sprintf("(%s %s 0 %d)", fn, v.T, at.Len()), Ty: contentType}, nil
	}
	sl, ok := v.Ty.Underlying().(*types.Slice)
	if !ok {
		return Val{}, e.errf("content() of non-slice")
	}
	u.declRaw("sort$Content", "(declare-sort Content 0)")
	es := u.sortOf(sl.Elem())
	fn := q("content$" + shortType(sl.Elem()))
	u.declareFun(fn, []string{"(Array Int " + es + ")", "Int", "Int"}, "Content")
	comp, _ := u.elemComp(sl.Elem())
	return Val{T: fmt.Sprintf("(%s (select %s (s.base %s)) (s.off %s) (s.len %s))", fn, e.heap(comp), v.T, v.T, v.T), Ty: contentType}, nil
}

var contentType = types.NewNamed(types.NewTypeName(0, nil, "Content", nil), types.NewStruct(nil, nil), nil)

func (e *Env) conversion(te *TypeExpr, args []Expr) (Val, error) {
	ty, err := e.u.resolveType(te, e.pkg)
	if err != nil {
		return Val{}, err
	}
	return e.convertTo(ty, args)
}

func (e *Env) convertTo(ty types.Type, args []Expr) (Val, error) {
	if len(args) != 1 {
		return Val{}, e.errf("conversion takes one argument")
	}
	v, err := e.Eval(args[0])
	if err != nil {
		return Val{}, err
	}
	if v.Ty == untypedNil {
		return Val{T: e.u.zeroOf(ty), Ty: ty}, nil
	}
	// spec conversions between integer types are value preserving (mathematical)
	if isNumeric(ty) && isNumeric(v.Ty) {
		return Val{T: v.T, Ty: ty}, nil
	}
	if e.u.sortOf(ty) == e.u.sortOf(v.Ty) {
		return Val{T: v.T, Ty: ty}, nil
	}
	return Val{}, e.errf("unsupported conversion %s -> %s", v.Ty, ty)
}

func (e *Env) evalMethodCall(f *ESel, args []Expr) (Val, error) {
	// x.m(args): a spec function declared with the receiver as first parameter named "<Type>_<m>"
	recv, err := e.Eval(f.X)
	if err != nil {
		return Val{}, err
	}
	base := recv.Ty
	if pt, ok := base.Underlying().(*types.Pointer); ok {
		base = pt.Elem()
	}
	n, ok := base.(*types.Named)
	if !ok {
		return Val{}, e.errf("method call %s on unnamed type", f.Name)
	}
	pk := ""
	if n.Obj().Pkg() != nil {
		pk = n.Obj().Pkg().Path()
	}
	sf := e.u.eng.specs.lookupFunc(e.pkg, pk, n.Obj().Name()+"_"+f.Name)
	if sf == nil {
		return Val{}, e.errf("no spec function %s_%s for method call", n.Obj().Name(), f.Name)
	}
	return e.callSpecFuncVals(sf, append([]Val{recv}, nil...), args)
}

func (ss *SpecSet) lookupFunc(cur *types.Package, pkgPath, name string) *SpecFunc {
	if pkgPath != "" {
		if m := ss.Funcs[pkgPath]; m != nil {
			if f := m[name]; f != nil {
				return f
			}
		}
		return nil
	}
	if cur != nil {
		if m := ss.Funcs[cur.Path()]; m != nil {
			if f := m[name]; f != nil {
				return f
			}
		}
	}
	// global (spec library) functions
	if m := ss.Funcs[""]; m != nil {
		if f := m[name]; f != nil {
			return f
		}
	}
	// unique across packages
	var found *SpecFunc
	for _, m := range ss.Funcs {
		if f := m[name]; f != nil {
			if found != nil {
				return nil
			}
			found = f
		}
	}
	return found
}

func (e *Env) callSpecFunc(sf *SpecFunc, args []Expr) (Val, error) {
	return e.callSpecFuncVals(sf, nil, args)
}

func (e *Env) callSpecFuncVals(sf *SpecFunc, pre []Val, args []Expr) (Val, error) {
	u := e.u
	if len(pre)+len(args) != len(sf.Params) {
		return Val{}, e.errf("%s expects %d arguments", sf.Name, len(sf.Params))
	}
	key := sf.PkgPath + "." + sf.Name
	var def *specDef
	if e.selfName == key {
		def = nil // recursive call inside own definition
	} else {
		d, err := u.ensureSpecFunc(sf)
		if err != nil {
			return Val{}, err
		}
		def = d
	}
	var argTerms []string
	spkg := u.eng.typesPkg(sf.PkgPath)
	if spkg == nil {
		spkg = e.pkg
	}
	for i, p := range sf.Params {
		var v Val
		if i < len(pre) {
			v = pre[i]
		} else {
			var err error
			v, err = e.Eval(args[i-len(pre)])
			if err != nil {
				return Val{}, err
			}
		}
		pty, err := u.resolveType(p.Type, spkg)
		if err != nil {
			return Val{}, err
		}
		argTerms = append(argTerms, e.coerce(v, pty).T)
	}
	resTy, err := u.resolveType(sf.Result, spkg)
	if err != nil {
		return Val{}, err
	}
	var heapArgs []string
	if def == nil {
		for _, c := range e.selfHeap {
			heapArgs = append(heapArgs, e.heap(c))
		}
	} else {
		for _, c := range def.footprint {
			heapArgs = append(heapArgs, e.heap(c))
		}
	}
	all := append(heapArgs, argTerms...)
	name := q("spec$" + strings.TrimPrefix(key, repoModule+"/"))
	if len(all) == 0 {
		return Val{T: name, Ty: resTy}, nil
	}
	return Val{T: "(" + name + " " + strings.Join(all, " ") + ")", Ty: resTy}, nil
}

type specDef struct {
	smt       string
	footprint []string
	resTy     types.Type
}

func (u *Unit) ensureSpecFunc(sf *SpecFunc) (*specDef, error) {
	key := sf.PkgPath + "." + sf.Name
	if d, ok := u.specDefs[key]; ok {
		if d == nil {
			return nil, fmt.Errorf("mutually recursive spec functions are not supported (%s)", key)
		}
		return d, nil
	}
	u.specDefs[key] = nil
	pkg := u.eng.typesPkg(sf.PkgPath)
	if pkg == nil {
		pkg = u.pkg
	}
	name := q("spec$" + strings.TrimPrefix(key, repoModule+"/"))
	resTy, err := u.resolveType(sf.Result, pkg)
	if err != nil {
		delete(u.specDefs, key)
		return nil, fmt.Errorf("%s:%d: %v", sf.File, sf.Line, err)
	}
	var params []string
	var paramSorts []string
	vars := map[string]Val{}
	for _, p := range sf.Params {
		ty, err := u.resolveType(p.Type, pkg)
		if err != nil {
			delete(u.specDefs, key)
			return nil, fmt.Errorf("%s:%d: %v", sf.File, sf.Line, err)
		}
		pn := "a$" + p.Name
		vars[p.Name] = Val{T: pn, Ty: ty}
		params = append(params, fmt.Sprintf("(%s %s)", pn, u.sortOf(ty)))
		paramSorts = append(paramSorts, u.sortOf(ty))
	}
	d := &specDef{resTy: resTy}
	if sf.Body == nil {
		d.smt = fmt.Sprintf("(declare-fun %s (%s) %s)", name, strings.Join(paramSorts, " "), u.sortOf(resTy))
		u.specDefs[key] = d
		u.specOrder = append(u.specOrder, key)
		u.trusted["uninterpreted spec function "+sf.Name] = true
		return d, nil
	}
	x := &Executor{u: u}
	// pass 1: footprint
	fp := map[string]bool{}
	env := &Env{x: x, u: u, vars: vars, bound: map[string]Val{}, pkg: pkg, heapSyms: map[string]string{}, footprint: fp, selfName: key}
	if _, err := env.Eval(sf.Body); err != nil {
		delete(u.specDefs, key)
		return nil, fmt.Errorf("%s:%d: %s: %v", sf.File, sf.Line, sf.Name, err)
	}
	var comps []string
	for c := range fp {
		comps = append(comps, c)
	}
	sort.Strings(comps)
	d.footprint = comps
	// pass 2
	hs := map[string]string{}
	var hparams []string
	for _, c := range comps {
		hs[c] = q("hp$" + c)
		hparams = append(hparams, fmt.Sprintf("(%s %s)", hs[c], u.heapSorts[c]))
	}
	env2 := &Env{x: x, u: u, vars: vars, bound: map[string]Val{}, pkg: pkg, heapSyms: hs, selfName: key, selfHeap: comps}
	body, err := env2.Eval(sf.Body)
	if err != nil {
		delete(u.specDefs, key)
		return nil, err
	}
	rec := strings.Contains(body.T, name)
	all := append(hparams, params...)
	kw := "define-fun"
	if rec {
		kw = "define-fun-rec"
	}
	d.smt = fmt.Sprintf("(%s %s (%s) %s %s)", kw, name, strings.Join(all, " "), u.sortOf(resTy), body.T)
	if u.opaque[sf.Name] {
		// opt opaque: the definition is hidden in this unit (only lemmas speak about the function);
		// a proof that does not need the unfolding is faster and more stable without it
		var sorts []string
		for _, c := range comps {
			sorts = append(sorts, u.heapSorts[c])
		}
		sorts = append(sorts, paramSorts...)
		d.smt = fmt.Sprintf("(declare-fun %s (%s) %s)", name, strings.Join(sorts, " "), u.sortOf(resTy))
	}
	u.specDefs[key] = d
	u.specOrder = append(u.specOrder, key)
	return d, nil
}

// ------------------------------------------------------------------ type resolution

func (u *Unit) findImport(pkg *types.Package, name string) *types.Package {
	if pkg == nil {
		return nil
	}
	// the local name an import has in the package's own source files decides
	if p := u.eng.importByLocalName(pkg, name); p != nil {
		return p
	}
	for _, imp := range pkg.Imports() {
		if imp.Name() == name {
			return imp
		}
	}
	// aliased imports: look through the engine's loaded packages by last path element
	if p := u.eng.importAlias(pkg, name); p != nil {
		return p
	}
	return nil
}

func (u *Unit) resolveType(te *TypeExpr, pkg *types.Package) (types.Type, error) {
	switch te.Kind {
	case "ptr":
		el, err := u.resolveType(te.Elem, pkg)
		if err != nil {
			return nil, err
		}
		return types.NewPointer(el), nil
	case "slice":
		el, err := u.resolveType(te.Elem, pkg)
		if err != nil {
			return nil, err
		}
		return types.NewSlice(el), nil
	case "array":
		el, err := u.resolveType(te.Elem, pkg)
		if err != nil {
			return nil, err
		}
		n, err := strconv.Atoi(te.Len)
		if err != nil {
			return nil, err
		}
		return types.NewArray(el, int64(n)), nil
	case "gmap":
		k, err := u.resolveType(te.Key, pkg)
		if err != nil {
			return nil, err
		}
		v, err := u.resolveType(te.Elem, pkg)
		if err != nil {
			return nil, err
		}
		return u.eng.ghostMapType(k, v), nil
	case "map":
		k, err := u.resolveType(te.Key, pkg)
		if err != nil {
			return nil, err
		}
		v, err := u.resolveType(te.Elem, pkg)
		if err != nil {
			return nil, err
		}
		return types.NewMap(k, v), nil
	case "name":
		if te.Pkg == "" {
			switch te.Name {
			case "mathint":
				return mathInt, nil
			case "Content":
				return contentType, nil
			}
			if pkg != nil {
				if tn, ok := pkg.Scope().Lookup(te.Name).(*types.TypeName); ok {
					return tn.Type(), nil
				}
			}
			if tn, ok := types.Universe.Lookup(te.Name).(*types.TypeName); ok {
				return tn.Type(), nil
			}
			return nil, fmt.Errorf("unknown type %s", te.Name)
		}
		p := u.findImport(pkg, te.Pkg)
		if p == nil {
			return nil, fmt.Errorf("unknown package %s in type %s", te.Pkg, te)
		}
		if tn, ok := p.Scope().Lookup(te.Name).(*types.TypeName); ok {
			return tn.Type(), nil
		}
		return nil, fmt.Errorf("unknown type %s", te)
	}
	return nil, fmt.Errorf("bad type expression")
}

// sidxPatterns finds the distinct terms (sidx T v) in an SMT term where v is the given bound variable
// and T mentions no quantified variable (q$...).
func sidxPatterns(term, v string) []string {
	var out []string
	seen := map[string]bool{}
	for i := 0; i+6 < len(term); i++ {
		if !strings.HasPrefix(term[i:], "(sidx ") {
			continue
		}
		depth := 0
		j := i
		for ; j < len(term); j++ {
			if term[j] == '(' {
				depth++
			} else if term[j] == ')' {
				depth--
				if depth == 0 {
					break
				}
			}
		}
		if j >= len(term) {
			break
		}
		t := term[i : j+1]
		if !strings.HasSuffix(t, " "+v+")") {
			continue
		}
		inner := t[len("(sidx ") : len(t)-len(" "+v+")")]
		if strings.Contains(inner, "q$") || strings.Contains(inner, "(forall") || strings.Contains(inner, "(exists") {
			continue
		}
		if !seen[t] {
			seen[t] = true
			out = append(out, t)
		}
	}
	return out
}

// callName: f, T.f, f#k or T.f#k written as an expression (the ordinal is parsed as "f # k" is not Go:
// it is written f_k? no: as a call-free selector; ordinals use the form nth(f, k))
func callName(e Expr) string {
	switch t := e.(type) {
	case *EIdent:
		return t.Name
	case *ESel:
		if id, ok := t.X.(*EIdent); ok {
			return id.Name + "." + t.Name
		}
	case *ECall:
		// nth(f, k)
		if id, ok := t.Fun.(*EIdent); ok && id.Name == "nth" && len(t.Args) == 2 {
			if lit, ok := t.Args[1].(*ELit); ok {
				if b := callName(t.Args[0]); b != "" {
					return b + "#" + lit.Val
				}
			}
		}
	}
	return ""
}
