package main

// Spec expression language: Go expression syntax plus ==>, <==>, forall/exists, old(), ite().

import (
	"fmt"
	"strings"
	"unicode"
)

type Expr interface{ String() string }

type (
	EIdent struct{ Name string }
	ELit   struct {
		Kind string // int, string, char
		Val  string
	}
	EUnary struct {
		Op string
		X  Expr
	}
	EBinary struct {
		Op   string
		X, Y Expr
	}
	ESel struct {
		X    Expr
		Name string
	}
	EIndex struct{ X, I Expr }
	ESlice struct{ X, Lo, Hi Expr }
	ECall  struct {
		Fun  Expr
		Args []Expr
	}
	EQuant struct {
		Forall bool
		Vars   []QVar
		Body   Expr
	}
	EComposite struct {
		Type   *TypeExpr
		Fields []CompField
	}
	ETypeExpr struct{ T *TypeExpr } // a type used as conversion target, e.g. []byte(x)
)

type CompField struct {
	Name string
	Val  Expr
}

type QVar struct {
	Name string
	Type *TypeExpr
}

// TypeExpr is a syntactic type.
type TypeExpr struct {
	Kind string // name, ptr, slice, array, map
	Pkg  string // for name
	Name string
	Elem *TypeExpr
	Key  *TypeExpr
	Len  string
}

func (t *TypeExpr) String() string {
	switch t.Kind {
	case "name":
		if t.Pkg != "" {
			return t.Pkg + "." + t.Name
		}
		return t.Name
	case "ptr":
		return "*" + t.Elem.String()
	case "slice":
		return "[]" + t.Elem.String()
	case "array":
		return "[" + t.Len + "]" + t.Elem.String()
	case "map", "gmap":
		return t.Kind + "[" + t.Key.String() + "]" + t.Elem.String()
	}
	return "?"
}

func (e *EIdent) String() string { return e.Name }
func (e *ELit) String() string   { return e.Val }
func (e *EUnary) String() string { return "(" + e.Op + e.X.String() + ")" }
func (e *EBinary) String() string {
	return "(" + e.X.String() + " " + e.Op + " " + e.Y.String() + ")"
}
func (e *ESel) String() string   { return e.X.String() + "." + e.Name }
func (e *EIndex) String() string { return e.X.String() + "[" + e.I.String() + "]" }
func (e *ESlice) String() string {
	lo, hi := "", ""
	if e.Lo != nil {
		lo = e.Lo.String()
	}
	if e.Hi != nil {
		hi = e.Hi.String()
	}
	return e.X.String() + "[" + lo + ":" + hi + "]"
}
func (e *ECall) String() string {
	var a []string
	for _, x := range e.Args {
		a = append(a, x.String())
	}
	return e.Fun.String() + "(" + strings.Join(a, ", ") + ")"
}
func (e *EQuant) String() string {
	q := "exists"
	if e.Forall {
		q = "forall"
	}
	var vs []string
	for _, v := range e.Vars {
		vs = append(vs, v.Name+" "+v.Type.String())
	}
	return "(" + q + " " + strings.Join(vs, ", ") + " :: " + e.Body.String() + ")"
}
func (e *EComposite) String() string {
	var fs []string
	for _, f := range e.Fields {
		fs = append(fs, f.Name+": "+f.Val.String())
	}
	return e.Type.String() + "{" + strings.Join(fs, ", ") + "}"
}
func (e *ETypeExpr) String() string { return e.T.String() }

// ---------------------------------------------------------------- lexer

type tok struct {
	kind string // id, int, str, char, op, eof
	val  string
	pos  int
}

type lexer struct {
	src  string
	toks []tok
	p    int
}

var ops = []string{"<==>", "==>", "&&", "||", "==", "!=", "<=", ">=", "<<", ">>", "&^", "::", "+", "-", "*", "/", "%", "&", "|", "^", "<", ">", "!", "(", ")", "[", "]", "{", "}", ",", ".", ":"}

func lex(src string) ([]tok, error) {
	var toks []tok
	i := 0
	for i < len(src) {
		c := src[i]
		if c == ' ' || c == '\t' || c == '\n' || c == '\r' {
			i++
			continue
		}
		if unicode.IsLetter(rune(c)) || c == '_' || c == '$' {
			j := i + 1
			for j < len(src) && (unicode.IsLetter(rune(src[j])) || unicode.IsDigit(rune(src[j])) || src[j] == '_' || src[j] == '$' || src[j] == '#') {
				j++
			}
			toks = append(toks, tok{"id", src[i:j], i})
			i = j
			continue
		}
		if unicode.IsDigit(rune(c)) {
			j := i + 1
			for j < len(src) && (unicode.IsDigit(rune(src[j])) || unicode.IsLetter(rune(src[j])) || src[j] == '_') {
				j++
			}
			toks = append(toks, tok{"int", strings.ReplaceAll(src[i:j], "_", ""), i})
			i = j
			continue
		}
		if c == '"' {
			j := i + 1
			for j < len(src) && src[j] != '"' {
				if src[j] == '\\' {
					j++
				}
				j++
			}
			if j >= len(src) {
				return nil, fmt.Errorf("unterminated string at %d", i)
			}
			toks = append(toks, tok{"str", src[i : j+1], i})
			i = j + 1
			continue
		}
		if c == '\'' {
			j := i + 1
			for j < len(src) && src[j] != '\'' {
				if src[j] == '\\' {
					j++
				}
				j++
			}
			toks = append(toks, tok{"char", src[i : j+1], i})
			i = j + 1
			continue
		}
		matched := false
		for _, op := range ops {
			if strings.HasPrefix(src[i:], op) {
				toks = append(toks, tok{"op", op, i})
				i += len(op)
				matched = true
				break
			}
		}
		if !matched {
			return nil, fmt.Errorf("bad character %q at %d in %q", c, i, src)
		}
	}
	toks = append(toks, tok{"eof", "", len(src)})
	return toks, nil
}

// ---------------------------------------------------------------- parser

type parser struct {
	toks []tok
	p    int
	src  string
}

func (p *parser) peek() tok { return p.toks[p.p] }
func (p *parser) next() tok { t := p.toks[p.p]; p.p++; return t }
func (p *parser) isOp(v string) bool {
	t := p.peek()
	return t.kind == "op" && t.val == v
}
func (p *parser) isId(v string) bool {
	t := p.peek()
	return t.kind == "id" && t.val == v
}
func (p *parser) expectOp(v string) {
	t := p.next()
	if t.kind != "op" || t.val != v {
		panic(fmt.Errorf("expected %q, got %q at %d in %q", v, t.val, t.pos, p.src))
	}
}

func ParseExpr(src string) (e Expr, err error) {
	toks, err := lex(src)
	if err != nil {
		return nil, err
	}
	p := &parser{toks: toks, src: src}
	defer func() {
		if r := recover(); r != nil {
			if er, ok := r.(error); ok {
				err = er
				return
			}
			panic(r)
		}
	}()
	e = p.parseExpr(0)
	if p.peek().kind != "eof" {
		return nil, fmt.Errorf("trailing input %q at %d in %q", p.peek().val, p.peek().pos, src)
	}
	return e, nil
}

func MustParseExpr(src string) Expr {
	e, err := ParseExpr(src)
	if err != nil {
		panic(err)
	}
	return e
}

var binPrec = map[string]int{
	"<==>": 1, "==>": 2, "||": 3, "&&": 4,
	"==": 5, "!=": 5, "<": 5, "<=": 5, ">": 5, ">=": 5,
	"+": 6, "-": 6, "|": 6, "^": 6,
	"*": 7, "/": 7, "%": 7, "<<": 7, ">>": 7, "&": 7, "&^": 7,
}

func (p *parser) parseExpr(minPrec int) Expr {
	lhs := p.parseUnary()
	for {
		t := p.peek()
		if t.kind != "op" {
			return lhs
		}
		prec, ok := binPrec[t.val]
		if !ok || prec < minPrec {
			return lhs
		}
		p.next()
		var rhs Expr
		if t.val == "==>" { // right assoc
			rhs = p.parseExpr(prec)
		} else {
			rhs = p.parseExpr(prec + 1)
		}
		lhs = &EBinary{t.val, lhs, rhs}
	}
}

func (p *parser) parseUnary() Expr {
	t := p.peek()
	if t.kind == "op" {
		switch t.val {
		case "!", "-", "^", "*", "&", "+":
			p.next()
			return &EUnary{t.val, p.parseUnary()}
		}
	}
	if t.kind == "id" && (t.val == "forall" || t.val == "exists") {
		p.next()
		var vars []QVar
		for {
			var names []string
			names = append(names, p.next().val)
			for p.isOp(",") {
				// could be "i, j int" or "i int, j int"
				p.next()
				names = append(names, p.next().val)
			}
			ty := p.parseType()
			for _, n := range names {
				vars = append(vars, QVar{n, ty})
			}
			if p.isOp(",") {
				p.next()
				continue
			}
			break
		}
		p.expectOp("::")
		body := p.parseExpr(0)
		return &EQuant{t.val == "forall", vars, body}
	}
	return p.parsePostfix(p.parsePrimary())
}

func (p *parser) parseType() *TypeExpr {
	t := p.next()
	if t.kind == "op" && t.val == "*" {
		return &TypeExpr{Kind: "ptr", Elem: p.parseType()}
	}
	if t.kind == "op" && t.val == "[" {
		if p.isOp("]") {
			p.next()
			return &TypeExpr{Kind: "slice", Elem: p.parseType()}
		}
		n := p.next()
		p.expectOp("]")
		return &TypeExpr{Kind: "array", Len: n.val, Elem: p.parseType()}
	}
	if t.kind == "id" && (t.val == "map" || t.val == "gmap") {
		p.expectOp("[")
		k := p.parseType()
		p.expectOp("]")
		return &TypeExpr{Kind: t.val, Key: k, Elem: p.parseType()}
	}
	if t.kind == "id" {
		if p.isOp(".") {
			p.next()
			n := p.next()
			return &TypeExpr{Kind: "name", Pkg: t.val, Name: n.val}
		}
		return &TypeExpr{Kind: "name", Name: t.val}
	}
	panic(fmt.Errorf("bad type at %d in %q", t.pos, p.src))
}

func (p *parser) parsePrimary() Expr {
	t := p.next()
	switch t.kind {
	case "int":
		return &ELit{"int", t.val}
	case "str":
		return &ELit{"string", t.val}
	case "char":
		return &ELit{"char", t.val}
	case "id":
		if t.val == "map" {
			p.p--
			ty := p.parseType()
			return &ETypeExpr{ty}
		}
		return &EIdent{t.val}
	case "op":
		if t.val == "(" {
			// (*T)(x) or parenthesised expr
			e := p.parseExpr(0)
			p.expectOp(")")
			return e
		}
		if t.val == "[" {
			p.p--
			ty := p.parseType()
			if p.isOp("{") {
				return p.parseCompositeBody(ty)
			}
			return &ETypeExpr{ty}
		}
	}
	panic(fmt.Errorf("unexpected %q at %d in %q", t.val, t.pos, p.src))
}

func (p *parser) parseCompositeBody(ty *TypeExpr) Expr {
	p.expectOp("{")
	c := &EComposite{Type: ty}
	for !p.isOp("}") {
		// Name: val  or val
		if p.peek().kind == "id" && p.toks[p.p+1].kind == "op" && p.toks[p.p+1].val == ":" {
			n := p.next().val
			p.next()
			c.Fields = append(c.Fields, CompField{n, p.parseExpr(0)})
		} else {
			c.Fields = append(c.Fields, CompField{"", p.parseExpr(0)})
		}
		if p.isOp(",") {
			p.next()
		}
	}
	p.expectOp("}")
	return c
}

func exprToType(e Expr) *TypeExpr {
	switch x := e.(type) {
	case *EIdent:
		return &TypeExpr{Kind: "name", Name: x.Name}
	case *ESel:
		if id, ok := x.X.(*EIdent); ok {
			return &TypeExpr{Kind: "name", Pkg: id.Name, Name: x.Name}
		}
	case *ETypeExpr:
		return x.T
	case *EUnary:
		if x.Op == "*" {
			if t := exprToType(x.X); t != nil {
				return &TypeExpr{Kind: "ptr", Elem: t}
			}
		}
	}
	return nil
}

func (p *parser) parsePostfix(e Expr) Expr {
	for {
		t := p.peek()
		if t.kind != "op" {
			return e
		}
		switch t.val {
		case ".":
			p.next()
			n := p.next()
			if n.kind != "id" {
				panic(fmt.Errorf("expected field name at %d in %q", n.pos, p.src))
			}
			e = &ESel{e, n.val}
		case "(":
			p.next()
			var args []Expr
			for !p.isOp(")") {
				args = append(args, p.parseExpr(0))
				if p.isOp(",") {
					p.next()
				}
			}
			p.expectOp(")")
			e = &ECall{e, args}
		case "[":
			p.next()
			var lo, hi Expr
			if p.isOp(":") {
				p.next()
				if !p.isOp("]") {
					hi = p.parseExpr(0)
				}
				p.expectOp("]")
				e = &ESlice{e, nil, hi}
				continue
			}
			lo = p.parseExpr(0)
			if p.isOp(":") {
				p.next()
				if !p.isOp("]") {
					hi = p.parseExpr(0)
				}
				p.expectOp("]")
				e = &ESlice{e, lo, hi}
				continue
			}
			p.expectOp("]")
			e = &EIndex{e, lo}
		case "{":
			// composite literal only if e is a type name starting with uppercase or qualified
			ty := exprToType(e)
			if ty == nil {
				return e
			}
			if id, ok := e.(*EIdent); ok && !(unicode.IsUpper(rune(id.Name[0]))) {
				return e
			}
			e = p.parseCompositeBody(ty)
		default:
			return e
		}
	}
}
