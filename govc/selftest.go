package main

// Must-fail corpus: every seeded change under /verif/seeded (sub-agent written property-breaking
// changes and the reverse of every "fix:" commit) is applied as an in-memory overlay (nothing under
// /repo is written) and the quick check of the listed properties must report a violation for the
// ones recorded as caught in /verif/seeded/expected.json. Run on every engine or contract change.

import (
	"encoding/json"
	"fmt"
	"os"
	"os/exec"
	"path/filepath"
	"regexp"
	"sort"
	"strings"
	"sync"
)

type seedExpect struct {
	Props  []string `json:"props"`            // checks to run (default: the seed's own property)
	Caught bool     `json:"caught"`           // expected outcome
	By     []string `json:"by,omitempty"`     // obligation names (instance-stripped) expected among the failures
	Reason string   `json:"reason,omitempty"` // for misses: why no contract reaches it
}

var diffFileRe = regexp.MustCompile(`(?m)^\+\+\+ b/(.+)$`)

// overlayFromPatch applies a patch to copies of the touched files and returns path=file pairs.
func overlayFromPatch(repo, patch, workdir string) ([]string, error) {
	b, err := os.ReadFile(patch)
	if err != nil {
		return nil, err
	}
	var files []string
	for _, m := range diffFileRe.FindAllStringSubmatch(string(b), -1) {
		files = append(files, m[1])
	}
	for _, f := range files {
		dst := filepath.Join(workdir, f)
		os.MkdirAll(filepath.Dir(dst), 0o755)
		src, err := os.ReadFile(filepath.Join(repo, f))
		if err != nil {
			if os.IsNotExist(err) {
				continue // file created by the patch
			}
			return nil, err
		}
		os.WriteFile(dst, src, 0o644)
	}
	cmd := exec.Command("git", "apply", "--unsafe-paths", "--directory="+workdir, patch)
	cmd.Dir = workdir
	if out, err := cmd.CombinedOutput(); err != nil {
		// outside a repository git apply works on the current directory
		cmd2 := exec.Command("git", "apply", patch)
		cmd2.Dir = workdir
		if out2, err2 := cmd2.CombinedOutput(); err2 != nil {
			return nil, fmt.Errorf("patch does not apply: %s %s", out, out2)
		}
	}
	var pairs []string
	for _, f := range files {
		pairs = append(pairs, filepath.Join(repo, f)+"="+filepath.Join(workdir, f))
	}
	return pairs, nil
}

type seedResult struct {
	Seed     string
	Props    []string
	Caught   bool
	Replayed bool
	Failed   []string
	Err      string
}

func runSeed(seed string, props []string, timeout int) seedResult {
	r := seedResult{Seed: seed, Props: props}
	work, err := os.MkdirTemp(Scratch(), "seed-")
	if err != nil {
		r.Err = err.Error()
		return r
	}
	defer os.RemoveAll(work)
	pairs, err := overlayFromPatch("/repo", filepath.Join(verifRoot, "seeded", seed, "patch.diff"), work)
	if err != nil {
		r.Err = err.Error()
		return r
	}
	self, _ := os.Executable()
	set := map[string]bool{}
	for _, p := range props {
		args := []string{"check", p, "--tier", "quick", "--noevidence"}
		if timeout > 0 {
			args = append(args, "--timeout", fmt.Sprint(timeout))
		}
		for _, pr := range pairs {
			args = append(args, "--overlay", pr)
		}
		cmd := exec.Command(self, args...)
		cmd.Env = append(os.Environ(), "GOVC_REPLAY_DIR="+filepath.Join(work, "replay"))
		out, _ := cmd.CombinedOutput()
		for _, l := range strings.Split(string(out), "\n") {
			if strings.HasPrefix(l, "VIOLATION ") {
				r.Caught = true
				if !strings.HasSuffix(strings.TrimSpace(l), "no-failing-input-found") {
					r.Replayed = true
				}
			}
			if strings.HasPrefix(l, "  obligation ") {
				f := strings.Fields(l)
				if len(f) > 1 {
					set[stripInstance(f[1])] = true
				}
			}
		}
	}
	for n := range set {
		r.Failed = append(r.Failed, n)
	}
	sort.Strings(r.Failed)
	return r
}

func loadExpected() map[string]*seedExpect {
	exp := map[string]*seedExpect{}
	if b, err := os.ReadFile(filepath.Join(verifRoot, "seeded", "expected.json")); err == nil {
		json.Unmarshal(b, &exp)
	}
	return exp
}

// runSelftest: govc selftest [--record] [--jobs N] [seed-or-property ...]
func runSelftest(args []string) int {
	record := false
	jobs := 4
	var filters []string
	for i := 0; i < len(args); i++ {
		switch args[i] {
		case "--record":
			record = true
		case "--jobs":
			i++
			fmt.Sscan(args[i], &jobs)
		default:
			filters = append(filters, args[i])
		}
	}
	exp := loadExpected()
	ents, _ := os.ReadDir(filepath.Join(verifRoot, "seeded"))
	var seeds []string
	for _, e := range ents {
		if !e.IsDir() {
			continue
		}
		if _, err := os.Stat(filepath.Join(verifRoot, "seeded", e.Name(), "patch.diff")); err != nil {
			continue
		}
		if len(filters) > 0 {
			ok := false
			for _, f := range filters {
				if e.Name() == f || strings.HasPrefix(e.Name(), f+"-") || strings.HasPrefix(e.Name(), "F-"+f+"-") {
					ok = true
				}
			}
			if !ok {
				continue
			}
		}
		seeds = append(seeds, e.Name())
	}
	results := make([]seedResult, len(seeds))
	var wg sync.WaitGroup
	sem := make(chan struct{}, jobs)
	for i, s := range seeds {
		i, s := i, s
		props := []string{seedProp(s)}
		if e, ok := exp[s]; ok && len(e.Props) > 0 {
			props = e.Props
		}
		wg.Add(1)
		sem <- struct{}{}
		go func() {
			defer wg.Done()
			defer func() { <-sem }()
			results[i] = runSeed(s, props, 0)
		}()
	}
	wg.Wait()
	bad := 0
	caught := 0
	for _, r := range results {
		e := exp[r.Seed]
		status := "missed"
		if r.Caught {
			status = "caught"
			caught++
			if r.Replayed {
				status = "caught+replayed"
			}
		}
		verdict := ""
		switch {
		case r.Err != "":
			verdict = "SKIPPED (" + r.Err + ")"
		case e == nil:
			verdict = "(no expectation recorded)"
		case e.Caught && !r.Caught:
			verdict = "REGRESSION: expected to be caught"
			bad++
		case !e.Caught && r.Caught:
			verdict = "improved: now caught (update expected.json)"
		case e.Caught && len(e.By) > 0:
			hit := false
			for _, b := range e.By {
				for _, f := range r.Failed {
					if f == b {
						hit = true
					}
				}
			}
			if !hit {
				verdict = "caught, but by different obligations than recorded"
			}
		}
		fmt.Printf("selftest %-8s props=%-12s %-16s %s\n", r.Seed, strings.Join(r.Props, ","), status, verdict)
		if len(r.Failed) > 0 {
			n := r.Failed
			if len(n) > 4 {
				n = n[:4]
			}
			fmt.Printf("           failing: %s\n", strings.Join(n, " "))
		}
		if record {
			ne := exp[r.Seed]
			if ne == nil {
				ne = &seedExpect{}
				exp[r.Seed] = ne
			}
			ne.Props = r.Props
			ne.Caught = r.Caught
			ne.By = r.Failed
			if len(ne.By) > 6 {
				ne.By = ne.By[:6]
			}
		}
	}
	fmt.Printf("selftest: %d seeded changes, %d caught, %d regressions\n", len(results), caught, bad)
	if record {
		b, _ := json.MarshalIndent(exp, "", " ")
		os.WriteFile(filepath.Join(verifRoot, "seeded", "expected.json"), append(b, '\n'), 0o644)
	}
	if bad > 0 {
		return 1
	}
	return 0
}

func seedProp(seed string) string {
	s := strings.TrimPrefix(seed, "F-")
	return strings.SplitN(s, "-", 2)[0]
}
