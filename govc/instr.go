package main

import (
	"fmt"
	"go/token"
	"go/types"
	"math/big"
	"strings"

	"golang.org/x/tools/go/ssa"
)

func (x *Executor) execInstr(fr *Frame, in ssa.Instruction, st *State, reach string) {
	u := x.u
	switch t := in.(type) {
	case *ssa.Alloc:
		et := t.Type().(*types.Pointer).Elem()
		if !t.Heap {
			k := localKey{t, fr.id}
			st.locals[k] = Val{T: u.zeroOf(et), Ty: et}
			fr.vals[t] = Val{T: "0", Ty: t.Type(), Addr: &Addr{Kind: "local", Local: k, Ty: et}}
			return
		}
		r := x.allocRef(st, t.Comment)
		v := Val{T: r, Ty: t.Type(), Taint: []string{r}}
		st.fresh[r] = et
		fr.vals[t] = v
		// zero-initialise
		a := x.deref(v)
		x.storeAddr(st, a, Val{T: u.zeroOf(et), Ty: et}, reach)

	case *ssa.FieldAddr:
		xv := x.value(fr, t.X)
		pt := t.X.Type().Underlying().(*types.Pointer).Elem()
		stt := pt.Underlying().(*types.Struct)
		fty := stt.Field(t.Field).Type()
		var a *Addr
		if xv.Addr != nil && xv.Addr.Kind != "structobj" {
			a = xv.Addr.extend(pathStep{field: t.Field, structT: pt}, fty)
		} else {
			ref := xv.T
			if xv.Addr != nil {
				ref = xv.Addr.Ref
			} else {
				x.check(fr, "nil", fmt.Sprintf("(not (= %s 0))", ref), reach, "nil dereference (field address)")
			}
			if isFlattened(fty) {
				// interior pointer to a nested struct/array: a first-class derived reference
				fr.vals[t] = Val{T: u.define("sub", "Int", u.subRef(pt, stt.Field(t.Field).Name(), ref)), Ty: t.Type(), Taint: xv.Taint}
				return
			}
			a = &Addr{Kind: "field", Ref: ref, Struct: pt, Field: stt.Field(t.Field).Name(), Ty: fty}
		}
		fr.vals[t] = Val{T: "0", Ty: t.Type(), Addr: a, Taint: xv.Taint}

	case *ssa.IndexAddr:
		xv := x.value(fr, t.X)
		iv := x.value(fr, t.Index)
		switch xt := t.X.Type().Underlying().(type) {
		case *types.Slice:
			x.check(fr, "index", fmt.Sprintf("(and (<= 0 %s) (< %s (s.len %s)))", iv.T, iv.T, xv.T), reach, "slice index in range")
			idx := u.define("ix", "Int", fmt.Sprintf("(sidx (s.off %s) %s)", xv.T, iv.T))
			fr.vals[t] = Val{T: "0", Ty: t.Type(), Addr: &Addr{Kind: "elem", Ref: fmt.Sprintf("(s.base %s)", xv.T), ElemT: xt.Elem(), Idx: idx, Ty: xt.Elem()}, Taint: xv.Taint}
		case *types.Pointer:
			at := xt.Elem().Underlying().(*types.Array)
			x.check(fr, "index", fmt.Sprintf("(and (<= 0 %s) (< %s %d))", iv.T, iv.T, at.Len()), reach, "array index in range")
			if xv.Addr != nil && xv.Addr.Kind != "arrobj" {
				fr.vals[t] = Val{T: "0", Ty: t.Type(), Addr: xv.Addr.extend(pathStep{field: -1, idx: iv.T, arrT: xt.Elem()}, at.Elem()), Taint: xv.Taint}
			} else {
				ref := xv.T
				if xv.Addr != nil {
					ref = xv.Addr.Ref
				} else {
					x.check(fr, "nil", fmt.Sprintf("(not (= %s 0))", ref), reach, "nil dereference (array index)")
				}
				fr.vals[t] = Val{T: "0", Ty: t.Type(), Addr: &Addr{Kind: "elem", Ref: ref, ElemT: at.Elem(), Idx: iv.T, Ty: at.Elem()}, Taint: xv.Taint}
			}
		default:
			u.unsupported("IndexAddr on " + t.X.Type().String())
		}

	case *ssa.UnOp:
		x.execUnOp(fr, t, st, reach)

	case *ssa.Store:
		av := x.value(fr, t.Addr)
		vv := x.value(fr, t.Val)
		if av.Addr == nil {
			x.check(fr, "nil", fmt.Sprintf("(not (= %s 0))", av.T), reach, "nil dereference (store)")
		}
		var beforeStore *State
		if len(u.twoState) > 0 && (av.Addr == nil || av.Addr.Kind != "local") {
			beforeStore = st.clone()
		}
		x.storeAddr(st, x.deref(av), vv, reach)
		if beforeStore != nil {
			// frame lemmas in use also relate the heaps before and after a heap store
			x.applyTwoStateLemmas(beforeStore, st)
		}

	case *ssa.BinOp:
		xv, yv := x.value(fr, t.X), x.value(fr, t.Y)
		if t.Op == token.OR && isInteger(t.Type()) {
			// x | y with provably disjoint bit ranges is x + y (exact)
			lo1, hi1, ok1 := bitRange(t.X, 0)
			lo2, hi2, ok2 := bitRange(t.Y, 0)
			if ok1 && ok2 && (hi1 <= lo2 || hi2 <= lo1) {
				fr.vals[t] = Val{T: u.define("ordisj", "Int", fmt.Sprintf("(+ %s %s)", xv.T, yv.T)), Ty: t.Type()}
				return
			}
		}
		fr.vals[t] = x.binop(fr, t.Op, xv, yv, t.Type(), reach)

	case *ssa.Field:
		xv := x.value(fr, t.X)
		u.sortOf(t.X.Type())
		term := u.define("fld", u.sortOf(t.Type()), fmt.Sprintf("(%s %s)", u.fieldAcc(t.X.Type(), t.Field), xv.T))
		fr.vals[t] = Val{T: term, Ty: t.Type()}
		if wf := u.wfValue(term, t.Type(), 0); wf != "true" {
			u.assume(fmt.Sprintf("(=> %s %s)", reach, wf))
		}

	case *ssa.Index:
		xv, iv := x.value(fr, t.X), x.value(fr, t.Index)
		switch xt := t.X.Type().Underlying().(type) {
		case *types.Array:
			x.check(fr, "index", fmt.Sprintf("(and (<= 0 %s) (< %s %d))", iv.T, iv.T, xt.Len()), reach, "array index in range")
			term := u.define("idx", u.sortOf(t.Type()), fmt.Sprintf("(select %s %s)", xv.T, iv.T))
			fr.vals[t] = Val{T: term, Ty: t.Type()}
			if wf := u.wfValue(term, t.Type(), 0); wf != "true" {
				u.assume(fmt.Sprintf("(=> %s %s)", reach, wf))
			}
		case *types.Basic: // string
			x.check(fr, "index", fmt.Sprintf("(and (<= 0 %s) (< %s (strlen %s)))", iv.T, iv.T, xv.T), reach, "string index in range")
			term := u.define("sidx", "Int", fmt.Sprintf("(strat %s %s)", xv.T, iv.T))
			u.assume(fmt.Sprintf("(and (<= 0 %s) (<= %s 255))", term, term))
			fr.vals[t] = Val{T: term, Ty: t.Type()}
		default:
			u.unsupported("Index on " + t.X.Type().String())
		}

	case *ssa.Extract:
		tv := x.value(fr, t.Tuple)
		if t.Index < len(tv.Tup) {
			fr.vals[t] = tv.Tup[t.Index]
		} else {
			u.unsupported("Extract from non-tuple")
			fr.vals[t] = Val{T: u.freshConst("ext", u.sortOf(t.Type())), Ty: t.Type()}
		}

	case *ssa.Call:
		var before *State
		if len(u.twoState) > 0 {
			before = st.clone()
		}
		fr.vals[t] = x.execCall(fr, st, reach, &t.Call, t)
		if fr.con != nil && fr.con == x.topCon {
			name := ""
			if t.Call.IsInvoke() {
				name = t.Call.Method.Name()
			} else if c := t.Call.StaticCallee(); c != nil {
				name = c.Name()
			}
			if name != "" {
				if x.callResults == nil {
					x.callResults = map[string]Val{}
					x.callReach = map[string]string{}
					x.callCount = map[string]int{}
				}
				// keys: the bare name, the receiver-qualified name, and either with "#k" for the
				// k-th call executed (in program order of the symbolic execution)
				names := []string{name}
				if c := t.Call.StaticCallee(); c != nil {
					if _, key := funcKey(c); key != name {
						names = append(names, key)
					}
				} else if t.Call.IsInvoke() {
					if n, ok := t.Call.Value.Type().(*types.Named); ok {
						names = append(names, n.Obj().Name()+"."+name)
					}
				}
				for _, nm := range names {
					x.callCount[nm]++
					for _, k := range []string{nm, fmt.Sprintf("%s#%d", nm, x.callCount[nm])} {
						x.callResults[k] = fr.vals[t]
						x.callReach[k] = reach
						if x.callArgs == nil {
							x.callArgs = map[string][]Val{}
						}
						var as []Val
						if t.Call.IsInvoke() {
							as = append(as, x.value(fr, t.Call.Value))
						}
						for _, a := range t.Call.Args {
							as = append(as, x.value(fr, a))
						}
						x.callArgs[k] = as
					}
				}
			}
		}
		if before != nil {
			x.applyTwoStateLemmas(before, st)
		}

	case *ssa.Defer:
		d := deferred{frame: fr.id, call: &t.Call, cond: "true", instr: t}
		for _, a := range t.Call.Args {
			d.args = append(d.args, x.value(fr, a))
		}
		d.fnVal = x.value(fr, t.Call.Value)
		st.defers = append(st.defers, d)

	case *ssa.RunDefers:
		// run this frame's deferred calls in reverse order
		var keep []deferred
		var mine []deferred
		for _, d := range st.defers {
			if d.frame == fr.id {
				mine = append(mine, d)
			} else {
				keep = append(keep, d)
			}
		}
		st.defers = keep
		for i := len(mine) - 1; i >= 0; i-- {
			d := mine[i]
			if d.cond != "true" {
				// conditional registration: execute on a copy and merge
				stYes := st.clone()
				x.execDeferred(fr, stYes, fmt.Sprintf("(and %s %s)", reach, d.cond), d)
				m := x.mergeStates([]incoming{{cond: d.cond, st: stYes}, {cond: "true", st: st}})
				*st = *m
			} else {
				x.execDeferred(fr, st, reach, d)
			}
		}

	case *ssa.MakeInterface:
		xv := x.value(fr, t.X)
		mi := x.makeIface(xv, t.X.Type(), t.Type())
		mi.Taint = xv.Taint
		inner := xv
		inner.Ty = t.X.Type()
		mi.Boxed = &inner
		fr.vals[t] = mi

	case *ssa.ChangeInterface:
		xv := x.value(fr, t.X)
		fr.vals[t] = Val{T: xv.T, Ty: t.Type(), Taint: xv.Taint}

	case *ssa.ChangeType:
		xv := x.value(fr, t.X)
		nv := xv
		nv.Ty = t.Type()
		if xv.Addr != nil {
			// pointer conversion between struct types with identical layout is not modelled
			if !types.Identical(xv.Addr.Ty, t.Type().Underlying().(*types.Pointer).Elem()) {
				u.unsupported("pointer ChangeType on symbolic address")
			}
		} else if pt, ok := t.Type().Underlying().(*types.Pointer); ok {
			if pf, ok2 := t.X.Type().Underlying().(*types.Pointer); ok2 && !types.Identical(pt.Elem(), pf.Elem()) {
				if _, isS := pt.Elem().Underlying().(*types.Struct); isS {
					// allowed when both share one underlying struct (same heap components)
					if pt.Elem().Underlying() != pf.Elem().Underlying() {
						u.unsupported("pointer conversion between distinct struct types")
					} else {
						u.canonStruct(pf.Elem())
						u.canonStruct(pt.Elem())
					}
				}
			}
		} else if _, ok := t.Type().Underlying().(*types.Struct); ok && !types.Identical(t.Type(), t.X.Type()) {
			// struct value conversion: rebuild with the target datatype
			nv.T = x.convertStruct(xv.T, t.X.Type(), t.Type())
		}
		fr.vals[t] = nv

	case *ssa.Convert:
		xv := x.value(fr, t.X)
		cv := x.convert(fr, st, xv, t.X.Type(), t.Type(), reach)
		cv.Taint = unionTaint(cv, xv)
		fr.vals[t] = cv

	case *ssa.TypeAssert:
		xv := x.value(fr, t.X)
		ta := x.typeAssert(fr, st, xv, t, reach)
		ta.Taint = xv.Taint
		for i := range ta.Tup {
			ta.Tup[i].Taint = xv.Taint
		}
		fr.vals[t] = ta

	case *ssa.Slice:
		sv := x.execSlice(fr, st, t, reach)
		sv.Taint = x.value(fr, t.X).Taint
		fr.vals[t] = sv

	case *ssa.MakeSlice:
		lv, cv := x.value(fr, t.Len), x.value(fr, t.Cap)
		et := t.Type().Underlying().(*types.Slice).Elem()
		x.check(fr, "makeslice", fmt.Sprintf("(and (<= 0 %s) (<= %s %s) (<= %s %s))", lv.T, lv.T, cv.T, cv.T, maxSliceLen), reach, "make: 0 <= len <= cap")
		if u.mute == 0 {
			u.allocs = append(u.allocs, allocSite{Pos: u.curPos, Size: cv.T, Reach: reach, Ln: len(u.script)})
		}
		if top := x.topCon; top != nil && top.AllocBound != nil {
			env := &Env{x: x, u: u, vars: x.topVars, bound: map[string]Val{}, st: st, old: x.entry, pkg: x.topPkg}
			bt, err := env.Eval(top.AllocBound.E)
			o := &Obligation{Name: x.topName + "#allocbound", Kind: "allocbound", Clause: "make size <= " + top.AllocBound.Src}
			if err != nil {
				o.Fail = err.Error()
			} else {
				o.Goal = fmt.Sprintf("(=> %s (<= %s %s))", reach, cv.T, bt.T)
			}
			u.addObl(o)
		}
		r := x.allocRef(st, "slice")
		comp, _ := u.elemComp(et)
		x.heapSet(st, comp, fmt.Sprintf("(store %s %s %s)", x.heapGet(st, comp), r, fmt.Sprintf("((as const (Array Int %s)) %s)", u.sortOf(et), u.zeroOf(et))))
		// the backing array is an object of this function: protected from unknown code until the
		// slice (or a pointer into it) escapes
		st.fresh[r] = types.NewArray(et, 0)
		fr.vals[t] = Val{T: u.define("mks", "Slice", fmt.Sprintf("(mk-slice %s 0 %s %s)", r, lv.T, cv.T)), Ty: t.Type(), Taint: []string{r}}

	case *ssa.MakeMap:
		mt := t.Type().Underlying().(*types.Map)
		r := x.allocRef(st, "map")
		pres, val, ln := u.mapComps(mt)
		x.heapSet(st, pres, fmt.Sprintf("(store %s %s ((as const (Array %s Bool)) false))", x.heapGet(st, pres), r, u.sortOf(mt.Key())))
		_ = val
		x.heapSet(st, ln, fmt.Sprintf("(store %s %s 0)", x.heapGet(st, ln), r))
		fr.vals[t] = Val{T: r, Ty: t.Type()}

	case *ssa.MapUpdate:
		mv, kv, vv := x.value(fr, t.Map), x.value(fr, t.Key), x.value(fr, t.Value)
		mt := t.Map.Type().Underlying().(*types.Map)
		x.check(fr, "nilmap", fmt.Sprintf("(not (= %s 0))", mv.T), reach, "assignment to entry in nil map")
		x.escape(st, kv, vv)
		x.mapStore(st, mt, mv.T, x.mapKey(kv, mt.Key()), vv.T)

	case *ssa.Lookup:
		xv, kv := x.value(fr, t.X), x.value(fr, t.Index)
		if mt, ok := t.X.Type().Underlying().(*types.Map); ok {
			pres, val, _ := u.mapComps(mt)
			k := x.mapKey(kv, mt.Key())
			p := u.define("mp", "Bool", fmt.Sprintf("(and (not (= %s 0)) (select (select %s %s) %s))", xv.T, x.heapGet(st, pres), xv.T, k))
			vt := u.define("mv", u.sortOf(mt.Elem()), fmt.Sprintf("(ite %s (select (select %s %s) %s) %s)", p, x.heapGet(st, val), xv.T, k, u.zeroOf(mt.Elem())))
			if wf := u.wfValue(vt, mt.Elem(), 0); wf != "true" {
				u.assume(fmt.Sprintf("(=> %s %s)", reach, wf))
			}
			v := Val{T: vt, Ty: mt.Elem()}
			x.reachGuard = reach
			x.assumeAllocated(st, v)
			x.reachGuard = ""
			if t.CommaOk {
				fr.vals[t] = Val{Ty: t.Type(), Tup: []Val{v, {T: p, Ty: types.Typ[types.Bool]}}}
			} else {
				fr.vals[t] = v
			}
		} else {
			// string index
			x.check(fr, "index", fmt.Sprintf("(and (<= 0 %s) (< %s (strlen %s)))", kv.T, kv.T, xv.T), reach, "string index in range")
			term := u.define("sidx", "Int", fmt.Sprintf("(strat %s %s)", xv.T, kv.T))
			u.assume(fmt.Sprintf("(and (<= 0 %s) (<= %s 255))", term, term))
			fr.vals[t] = Val{T: term, Ty: t.Type()}
		}

	case *ssa.Range:
		xv := x.value(fr, t.X)
		if mt, ok := t.X.Type().Underlying().(*types.Map); ok {
			// ghost visited set
			g := fmt.Sprintf("visited$%d$%s", fr.id, t.Name())
			ks := u.sortOf(mt.Key())
			st.ghost[g] = fmt.Sprintf("((as const (Array %s Bool)) false)", ks)
			fr.vals[t] = Val{T: xv.T, Ty: t.X.Type()}
		} else {
			u.unsupported("range over string")
		}

	case *ssa.Next:
		x.execNext(fr, st, t, reach)

	case *ssa.MakeClosure:
		fn := t.Fn.(*ssa.Function)
		var bind []Val
		for _, b := range t.Bindings {
			bind = append(bind, x.value(fr, b))
		}
		fr.vals[t] = Val{T: u.funcConst(fn), Ty: t.Type(), Fn: fn, Bind: bind, Taint: unionTaint(bind...)}

	case *ssa.Go:
		// the started goroutine is not part of this function's (atomic) execution: what it is handed escapes
		u.notes[goNote] = true
		for _, a := range t.Call.Args {
			x.escape(st, x.value(fr, a))
		}
		if !t.Call.IsInvoke() {
			if _, isB := t.Call.Value.(*ssa.Builtin); !isB {
				x.escape(st, x.value(fr, t.Call.Value))
			}
		} else {
			x.escape(st, x.value(fr, t.Call.Value))
		}
	case *ssa.MakeChan:
		// a channel is an opaque object; what is sent on it is handed to unknown code
		u.notes[chanNote] = true
		fr.vals[t] = x.freshResult(st, t.Type(), false)
		u.assume(fmt.Sprintf("(not (= %s 0))", fr.vals[t].T))
	case *ssa.Send:
		u.notes[chanNote] = true
		x.value(fr, t.Chan)
		x.escape(st, x.value(fr, t.X))
	case *ssa.Select:
		// any ready case may be chosen; received values are arbitrary well-formed values; sent values escape
		u.notes[chanNote] = true
		for _, stt := range t.States {
			if stt.Send != nil {
				x.escape(st, x.value(fr, stt.Send))
			}
		}
		tup := t.Type().(*types.Tuple)
		var vs []Val
		for i := 0; i < tup.Len(); i++ {
			vs = append(vs, x.freshResult(st, tup.At(i).Type(), false))
		}
		lo := 0
		if !t.Blocking {
			lo = -1
		}
		u.assume(fmt.Sprintf("(and (<= %d %s) (< %s %d))", lo, vs[0].T, vs[0].T, len(t.States)))
		fr.vals[t] = Val{Ty: t.Type(), Tup: vs}
	case *ssa.SliceToArrayPointer:
		u.unsupported("slice to array pointer")
	default:
		u.unsupported(fmt.Sprintf("instruction %T", in))
	}
}

func (x *Executor) storeAddr(st *State, a *Addr, v Val, reach string) {
	u := x.u
	switch a.Kind {
	case "arrobj":
		comp, _ := u.elemComp(a.ElemT)
		x.heapSet(st, comp, fmt.Sprintf("(store %s %s %s)", x.heapGet(st, comp), a.Ref, v.T))
	default:
		x.store(st, a, v, reach)
	}
}

func (x *Executor) loadAddr(st *State, a *Addr, reach string) Val {
	u := x.u
	switch a.Kind {
	case "arrobj":
		comp, _ := u.elemComp(a.ElemT)
		return Val{T: u.define("arr", u.sortOf(a.Ty), fmt.Sprintf("(select %s %s)", x.heapGet(st, comp), a.Ref)), Ty: a.Ty}
	}
	return x.load(st, a, reach)
}

func (x *Executor) execUnOp(fr *Frame, t *ssa.UnOp, st *State, reach string) {
	u := x.u
	xv := x.value(fr, t.X)
	switch t.Op {
	case token.MUL: // load
		if xv.Addr == nil {
			x.check(fr, "nil", fmt.Sprintf("(not (= %s 0))", xv.T), reach, "nil dereference (load)")
		}
		lv := x.loadAddr(st, x.deref(xv), reach)
		if _, isSig := t.Type().Underlying().(*types.Signature); isSig && lv.Fn == nil {
			// a function-typed variable shared with closures that is assigned exactly once, with a
			// static function: the load yields that function
			if a, ok := t.X.(*ssa.Alloc); ok && a.Heap {
				if f := uniqueFuncStore(a); f != nil {
					lv.Fn = f
				}
			}
		}
		fr.vals[t] = lv
	case token.NOT:
		fr.vals[t] = Val{T: fmt.Sprintf("(not %s)", xv.T), Ty: t.Type()}
	case token.SUB:
		if isFloat(t.Type()) {
			fr.vals[t] = Val{T: fmt.Sprintf("(- %s)", xv.T), Ty: t.Type()}
			return
		}
		raw := fmt.Sprintf("(- %s)", xv.T)
		fr.vals[t] = x.arithResult(fr, raw, t.Type(), reach, "negation")
	case token.XOR:
		// bitwise complement
		lo, hi, ok := intBounds(t.Type())
		if ok && lo.Sign() == 0 {
			fr.vals[t] = Val{T: u.define("cpl", "Int", fmt.Sprintf("(- %s %s)", hi.String(), xv.T)), Ty: t.Type()}
		} else {
			fr.vals[t] = Val{T: u.define("cpl", "Int", fmt.Sprintf("(- (- %s) 1)", xv.T)), Ty: t.Type()}
		}
	case token.ARROW:
		// a received value is an arbitrary well-formed value of the element type
		u.notes[chanNote] = true
		fr.vals[t] = x.freshResult(st, t.Type(), false)
	default:
		u.unsupported("unary op " + t.Op.String())
	}
}

// uniqueFuncStore: the single static, capture-free function ever stored into a heap-allocated
// function variable (stores through closures' free variables are looked for as well).
func uniqueFuncStore(a *ssa.Alloc) *ssa.Function {
	var found *ssa.Function
	n := 0
	var scan func(v ssa.Value, depth int) bool
	scan = func(v ssa.Value, depth int) bool {
		refs := v.Referrers()
		if refs == nil || depth > 3 {
			return false
		}
		for _, r := range *refs {
			switch rt := r.(type) {
			case *ssa.Store:
				if rt.Addr == v {
					f, ok := rt.Val.(*ssa.Function)
					if !ok {
						return false
					}
					found = f
					n++
				} else {
					return false // the address itself is stored somewhere
				}
			case *ssa.UnOp, *ssa.DebugRef:
			case *ssa.MakeClosure:
				cf := rt.Fn.(*ssa.Function)
				for i, b := range rt.Bindings {
					if b == v {
						if !scan(cf.FreeVars[i], depth+1) {
							return false
						}
					}
				}
			default:
				return false
			}
		}
		return true
	}
	if !scan(a, 0) || n != 1 {
		return nil
	}
	return found
}

// arithResult applies machine semantics to a mathematical result: either a no-overflow
// obligation (frames with nooverflow) or wrap-around.
func (x *Executor) arithResult(fr *Frame, raw string, ty types.Type, reach, what string) Val {
	u := x.u
	if _, _, ok := intBounds(ty); !ok {
		return Val{T: u.define("ar", u.sortOf(ty), raw), Ty: ty}
	}
	r := u.define("ar", "Int", raw)
	if fr.noovf {
		u.addObl(&Obligation{Name: fr.prefix + "#nooverflow", Kind: "nooverflow", Clause: what + " does not overflow " + ty.String(), Goal: fmt.Sprintf("(=> %s %s)", reach, u.inRange(r, ty))})
		return Val{T: r, Ty: ty}
	}
	return Val{T: u.define("aw", "Int", u.wrap(r, ty)), Ty: ty}
}

func (x *Executor) binop(fr *Frame, op token.Token, a, b Val, resTy types.Type, reach string) Val {
	u := x.u
	opTy := a.Ty
	boolRes := func(t string) Val { return Val{T: u.define("b", "Bool", t), Ty: resTy} }
	switch op {
	case token.EQL, token.NEQ:
		eq := x.equal(a, b)
		if op == token.NEQ {
			eq = "(not " + eq + ")"
		}
		return boolRes(eq)
	case token.LSS, token.LEQ, token.GTR, token.GEQ:
		if isString(opTy) {
			var t string
			switch op {
			case token.LSS:
				t = fmt.Sprintf("(strlt %s %s)", a.T, b.T)
			case token.GTR:
				t = fmt.Sprintf("(strlt %s %s)", b.T, a.T)
			case token.LEQ:
				t = fmt.Sprintf("(not (strlt %s %s))", b.T, a.T)
			case token.GEQ:
				t = fmt.Sprintf("(not (strlt %s %s))", a.T, b.T)
			}
			return boolRes(t)
		}
		m := map[token.Token]string{token.LSS: "<", token.LEQ: "<=", token.GTR: ">", token.GEQ: ">="}
		return boolRes(fmt.Sprintf("(%s %s %s)", m[op], a.T, b.T))
	}
	if isString(resTy) && op == token.ADD {
		return Val{T: u.define("cat", "Str", fmt.Sprintf("(strcat %s %s)", a.T, b.T)), Ty: resTy}
	}
	if isFloat(resTy) {
		m := map[token.Token]string{token.ADD: "+", token.SUB: "-", token.MUL: "*", token.QUO: "/"}
		return Val{T: u.define("f", "Real", fmt.Sprintf("(%s %s %s)", m[op], a.T, b.T)), Ty: resTy}
	}
	if isBoolean(resTy) {
		switch op {
		case token.AND, token.LAND:
			return boolRes(fmt.Sprintf("(and %s %s)", a.T, b.T))
		case token.OR, token.LOR:
			return boolRes(fmt.Sprintf("(or %s %s)", a.T, b.T))
		}
	}
	switch op {
	case token.ADD:
		return x.arithResult(fr, fmt.Sprintf("(+ %s %s)", a.T, b.T), resTy, reach, "addition")
	case token.SUB:
		return x.arithResult(fr, fmt.Sprintf("(- %s %s)", a.T, b.T), resTy, reach, "subtraction")
	case token.MUL:
		return x.arithResult(fr, mulTerm(a.T, b.T), resTy, reach, "multiplication")
	case token.QUO:
		x.check(fr, "div", fmt.Sprintf("(not (= %s 0))", b.T), reach, "division by zero")
		// the only overflowing case is MinInt / -1 (wraps to MinInt); otherwise |a/b| <= |a|
		lo, _, okB := intBounds(resTy)
		var dv string
		if okB && lo.Sign() < 0 {
			dv = u.define("dv", "Int", fmt.Sprintf("(ite (and (= %s %s) (= %s (- 1))) %s %s)", a.T, smtInt(lo), b.T, smtInt(lo), divTerm(a.T, b.T)))
		} else {
			dv = u.define("dv", "Int", divTerm(a.T, b.T))
		}
		u.assume(u.inRange(dv, resTy))
		return Val{T: dv, Ty: resTy}
	case token.REM:
		x.check(fr, "div", fmt.Sprintf("(not (= %s 0))", b.T), reach, "division by zero")
		return Val{T: u.define("rm", "Int", modTerm(a.T, b.T)), Ty: resTy}
	case token.SHL, token.SHR:
		// shift count: constant or bounded
		lo, hi, ok := intBounds(resTy)
		if !ok {
			lo, hi = big.NewInt(0), new(big.Int).Lsh(big.NewInt(1), 64)
		}
		bits := hi.BitLen()
		if lo.Sign() < 0 {
			bits++
		}
		if _, _, sok := intBounds(b.Ty); sok {
			if l, _, _ := intBounds(b.Ty); l.Sign() < 0 {
				x.check(fr, "shift", fmt.Sprintf("(>= %s 0)", b.T), reach, "negative shift count")
			}
		}
		p := fmt.Sprintf("(pow2 %s)", b.T)
		if k, okk := new(big.Int).SetString(b.T, 10); okk && k.Sign() >= 0 && k.IsInt64() && k.Int64() <= 256 {
			// constant shift count: a literal power of two keeps the arithmetic linear
			p = new(big.Int).Lsh(big.NewInt(1), uint(k.Int64())).String()
		}
		if op == token.SHL {
			raw := fmt.Sprintf("(ite (>= %s %d) 0 (* %s %s))", b.T, bits, a.T, p)
			// shifts discard high bits: always wrap (overflow obligations do not apply to shifts)
			return Val{T: u.define("shl", "Int", u.wrap(raw, resTy)), Ty: resTy}
		}
		// arithmetic shift right = floor division
		raw := fmt.Sprintf("(ite (>= %s %d) (ite (>= %s 0) 0 (- 1)) (div %s %s))", b.T, bits, a.T, a.T, p)
		return Val{T: u.define("shr", "Int", raw), Ty: resTy}
	case token.AND:
		// masks with 2^k-1 constants are exact
		if m, ok := maskBits(b.T); ok && unsignedOrNonneg(a.Ty) {
			return Val{T: u.define("and", "Int", fmt.Sprintf("(mod %s %s)", a.T, m)), Ty: resTy}
		}
		if m, ok := maskBits(a.T); ok && unsignedOrNonneg(b.Ty) {
			return Val{T: u.define("and", "Int", fmt.Sprintf("(mod %s %s)", b.T, m)), Ty: resTy}
		}
		r := u.define("and", "Int", fmt.Sprintf("(bitand %s %s)", a.T, b.T))
		u.assume(u.inRange(r, resTy))
		return Val{T: r, Ty: resTy}
	case token.OR:
		r := u.define("or", "Int", fmt.Sprintf("(bitor %s %s)", a.T, b.T))
		u.assume(u.inRange(r, resTy))
		return Val{T: r, Ty: resTy}
	case token.XOR:
		r := u.define("xor", "Int", fmt.Sprintf("(bitxor %s %s)", a.T, b.T))
		u.assume(u.inRange(r, resTy))
		return Val{T: r, Ty: resTy}
	case token.AND_NOT:
		r := u.define("andnot", "Int", fmt.Sprintf("(- %s (bitand %s %s))", a.T, a.T, b.T))
		u.assume(u.inRange(r, resTy))
		return Val{T: r, Ty: resTy}
	}
	u.unsupported("binary op " + op.String())
	return Val{T: u.freshConst("bin", u.sortOf(resTy)), Ty: resTy}
}

// bitRange: the set bits of v lie within [lo, hi) (syntactic, from conversions, constants and
// constant shifts).
func bitRange(v ssa.Value, depth int) (lo, hi int, ok bool) {
	if depth > 12 {
		return 0, 0, false
	}
	switch t := v.(type) {
	case *ssa.Const:
		if t.Value == nil {
			return 0, 0, false
		}
		n, okc := new(big.Int).SetString(t.Value.ExactString(), 10)
		if !okc || n.Sign() < 0 {
			return 0, 0, false
		}
		if n.Sign() == 0 {
			return 0, 0, true
		}
		return int(n.TrailingZeroBits()), n.BitLen(), true
	case *ssa.Convert:
		if l, h, okb := intBounds(t.X.Type()); okb && l.Sign() == 0 {
			w := h.BitLen()
			if il, ih, ok2 := bitRange(t.X, depth+1); ok2 {
				if ih < w {
					w = ih
				}
				if tl, th, okt := intBounds(t.Type()); okt && tl.Sign() == 0 && th.BitLen() < w {
					return il, th.BitLen(), true
				}
				return il, w, true
			}
			if tl, th, okt := intBounds(t.Type()); okt && tl.Sign() == 0 {
				if th.BitLen() < w {
					w = th.BitLen()
				}
				return 0, w, true
			}
		}
		if tl, th, okt := intBounds(t.Type()); okt && tl.Sign() == 0 && th.BitLen() < 64 {
			return 0, th.BitLen(), true
		}
	case *ssa.BinOp:
		switch t.Op {
		case token.SHL:
			if c, okc := t.Y.(*ssa.Const); okc && c.Value != nil {
				k, _ := new(big.Int).SetString(c.Value.ExactString(), 10)
				if l, h, okx := bitRange(t.X, depth+1); okx && k != nil && k.IsInt64() {
					_, th, _ := intBounds(t.Type())
					w := 64
					if th != nil {
						w = th.BitLen()
					}
					nh := h + int(k.Int64())
					if nh > w {
						nh = w
					}
					return l + int(k.Int64()), nh, true
				}
			}
		case token.SHR:
			if c, okc := t.Y.(*ssa.Const); okc && c.Value != nil {
				k, _ := new(big.Int).SetString(c.Value.ExactString(), 10)
				if l, h, okx := bitRange(t.X, depth+1); okx && k != nil && k.IsInt64() {
					nl, nh := l-int(k.Int64()), h-int(k.Int64())
					if nl < 0 {
						nl = 0
					}
					if nh < 0 {
						nh = 0
					}
					return nl, nh, true
				}
			}
		case token.OR, token.XOR, token.ADD:
			l1, h1, ok1 := bitRange(t.X, depth+1)
			l2, h2, ok2 := bitRange(t.Y, depth+1)
			if ok1 && ok2 && (t.Op != token.ADD || h1 <= l2 || h2 <= l1) {
				if l2 < l1 {
					l1 = l2
				}
				if h2 > h1 {
					h1 = h2
				}
				return l1, h1, true
			}
		case token.AND:
			if l, h, okx := bitRange(t.Y, depth+1); okx {
				if _, isC := t.Y.(*ssa.Const); isC {
					return l, h, true
				}
			}
			if l, h, okx := bitRange(t.X, depth+1); okx {
				if _, isC := t.X.(*ssa.Const); isC {
					return l, h, true
				}
			}
		}
	case *ssa.UnOp:
		// loads of unsigned narrow types
		if t.Op == token.MUL {
			if tl, th, okt := intBounds(t.Type()); okt && tl.Sign() == 0 && th.BitLen() < 64 {
				return 0, th.BitLen(), true
			}
		}
	}
	if tl, th, okt := intBounds(v.Type()); okt && tl.Sign() == 0 && th.BitLen() < 64 {
		return 0, th.BitLen(), true
	}
	return 0, 0, false
}

func unsignedOrNonneg(t types.Type) bool {
	lo, _, ok := intBounds(t)
	return ok && lo.Sign() == 0
}

// maskBits recognises constants of the form 2^k-1 and returns 2^k.
func maskBits(term string) (string, bool) {
	n, ok := new(big.Int).SetString(term, 10)
	if !ok || n.Sign() <= 0 {
		return "", false
	}
	m := new(big.Int).Add(n, big.NewInt(1))
	if new(big.Int).And(m, n).Sign() == 0 {
		return m.String(), true
	}
	return "", false
}

// equal builds Go's == for two values of the same type.
func (x *Executor) equal(a, b Val) string {
	ty := a.Ty
	if ty == nil {
		ty = b.Ty
	}
	if a.Addr != nil || b.Addr != nil {
		if a.Addr != nil && b.Addr != nil {
			if addrEq(a.Addr, b.Addr) {
				return "true"
			}
			x.u.unsupported("comparison of symbolic addresses")
			return x.u.freshConst("addrcmp", "Bool")
		}
		// a symbolic interior address is never nil
		other := a
		if a.Addr != nil {
			other = b
		}
		if other.T == "0" {
			return "false"
		}
		x.u.unsupported("comparison of a symbolic address with a pointer value")
		return x.u.freshConst("addrcmp", "Bool")
	}
	return x.u.equalTerms(a.T, b.T, ty)
}

func (u *Unit) equalTerms(a, b string, ty types.Type) string {
	if ty != nil {
		switch tt := ty.Underlying().(type) {
		case *types.Slice:
			// only comparison with nil is legal
			if a == "(mk-slice 0 0 0 0)" {
				return fmt.Sprintf("(= (s.base %s) 0)", b)
			}
			if b == "(mk-slice 0 0 0 0)" {
				return fmt.Sprintf("(= (s.base %s) 0)", a)
			}
		case *types.Interface:
			if a == "(mk-iface 0 0)" {
				return fmt.Sprintf("(= (i.tag %s) 0)", b)
			}
			if b == "(mk-iface 0 0)" {
				return fmt.Sprintf("(= (i.tag %s) 0)", a)
			}
		case *types.Array, *types.Struct:
			// array values are normalised (zero outside their bounds), so SMT equality is Go equality
			_ = tt
		}
	}
	return fmt.Sprintf("(= %s %s)", a, b)
}

func structHasArray(st *types.Struct) bool {
	for i := 0; i < st.NumFields(); i++ {
		switch ft := st.Field(i).Type().Underlying().(type) {
		case *types.Array:
			return true
		case *types.Struct:
			if structHasArray(ft) {
				return true
			}
		}
	}
	return false
}

func (x *Executor) convertStruct(term string, from, to types.Type) string {
	u := x.u
	u.sortOf(from)
	u.sortOf(to)
	fs := from.Underlying().(*types.Struct)
	var parts []string
	for i := 0; i < fs.NumFields(); i++ {
		parts = append(parts, fmt.Sprintf("(%s %s)", u.fieldAcc(from, i), term))
	}
	for _, g := range u.ghostFields(to) {
		parts = append(parts, u.zeroOf(g.ty))
	}
	if len(parts) == 0 {
		return u.structCtor(to)
	}
	return "(" + u.structCtor(to) + " " + strings.Join(parts, " ") + ")"
}

func (x *Executor) makeIface(v Val, from, to types.Type) Val {
	u := x.u
	if _, ok := from.Underlying().(*types.Interface); ok {
		return Val{T: v.T, Ty: to}
	}
	tag := u.typeTag(from)
	var payload string
	if v.Addr != nil {
		u.unsupported("interior pointer converted to interface")
		payload = u.freshConst("ifp", "Int")
	} else if isPointerLike(from) {
		payload = v.T
	} else {
		box, _ := u.boxFns(from)
		payload = fmt.Sprintf("(%s %s)", box, v.T)
	}
	return Val{T: u.define("mki", "Iface", fmt.Sprintf("(mk-iface %s %s)", tag, payload)), Ty: to}
}

func (x *Executor) unboxIface(v string, to types.Type) string {
	u := x.u
	if isPointerLike(to) {
		return fmt.Sprintf("(i.val %s)", v)
	}
	_, unbox := u.boxFns(to)
	return fmt.Sprintf("(%s (i.val %s))", unbox, v)
}

func (x *Executor) typeAssert(fr *Frame, st *State, v Val, t *ssa.TypeAssert, reach string) Val {
	u := x.u
	var okT string
	var res Val
	if _, isIface := t.AssertedType.Underlying().(*types.Interface); isIface {
		// interface-to-interface: succeeds iff dynamic type implements; modelled by an uninterpreted predicate on the tag
		okT = u.define("tok", "Bool", fmt.Sprintf("(and (not (= (i.tag %s) 0)) (typeimpl (i.tag %s) %d))", v.T, v.T, u.eng.typeID(t.AssertedType)))
		res = Val{T: v.T, Ty: t.AssertedType}
	} else {
		okT = u.define("tok", "Bool", fmt.Sprintf("(= (i.tag %s) %s)", v.T, u.typeTag(t.AssertedType)))
		res = Val{T: u.define("ta", u.sortOf(t.AssertedType), x.unboxIface(v.T, t.AssertedType)), Ty: t.AssertedType}
		if wf := u.wfValue(res.T, t.AssertedType, 0); wf != "true" {
			u.assume(fmt.Sprintf("(=> %s %s)", okT, wf))
		}
	}
	if t.CommaOk {
		zero := u.zeroOf(t.AssertedType)
		r := Val{T: u.define("tav", u.sortOf(t.AssertedType), fmt.Sprintf("(ite %s %s %s)", okT, res.T, zero)), Ty: t.AssertedType}
		return Val{Ty: t.Type(), Tup: []Val{r, {T: okT, Ty: types.Typ[types.Bool]}}}
	}
	x.check(fr, "typeassert", okT, reach, "type assertion succeeds")
	return res
}

func (x *Executor) convert(fr *Frame, st *State, v Val, from, to types.Type, reach string) Val {
	u := x.u
	switch {
	case isInteger(from) && isInteger(to):
		lo1, hi1, ok1 := intBounds(from)
		lo2, hi2, ok2 := intBounds(to)
		if ok1 && ok2 && lo1.Cmp(lo2) >= 0 && hi1.Cmp(hi2) <= 0 {
			return Val{T: v.T, Ty: to}
		}
		if fr.noovf && fr.con != nil && fr.con.Opts["convcheck"] != "" {
			u.addObl(&Obligation{Name: fr.prefix + "#nooverflow:conv", Kind: "nooverflow", Clause: "conversion preserves value", Goal: fmt.Sprintf("(=> %s %s)", reach, u.inRange(v.T, to))})
			return Val{T: v.T, Ty: to}
		}
		return Val{T: u.define("cv", "Int", u.wrap(v.T, to)), Ty: to}
	case isInteger(from) && isFloat(to):
		return Val{T: fmt.Sprintf("(to_real %s)", v.T), Ty: to}
	case isFloat(from) && isInteger(to):
		r := u.freshConst("f2i", "Int")
		u.assume(u.inRange(r, to))
		return Val{T: r, Ty: to}
	case isFloat(from) && isFloat(to):
		return Val{T: v.T, Ty: to}
	case isString(to):
		// string(bytes) / string(rune)
		r := u.freshConst("str", "Str")
		if _, ok := from.Underlying().(*types.Slice); ok {
			u.assume(fmt.Sprintf("(= (strlen %s) (s.len %s))", r, v.T))
			// content link via bytesOfStr (uninterpreted, functional in the content)
			u.assume(fmt.Sprintf("(= %s %s)", r, x.strOfBytes(st, v)))
		}
		return Val{T: r, Ty: to}
	case isString(from):
		if sl, ok := to.Underlying().(*types.Slice); ok {
			rf := x.allocRef(st, "bytes")
			comp, _ := u.elemComp(sl.Elem())
			inner := u.freshConst("strbytes", "(Array Int Int)")
			u.assume(fmt.Sprintf("(forall ((i Int)) (! (=> (and (<= 0 i) (< i (strlen %s))) (= (select %s i) (strat %s i))) :pattern ((select %s i))))", v.T, inner, v.T, inner))
			x.heapSet(st, comp, fmt.Sprintf("(store %s %s %s)", x.heapGet(st, comp), rf, inner))
			return Val{T: u.define("s2b", "Slice", fmt.Sprintf("(mk-slice %s 0 (strlen %s) (strlen %s))", rf, v.T, v.T)), Ty: to}
		}
	}
	if isPointerLike(from) && isPointerLike(to) {
		nv := v
		nv.Ty = to
		return nv
	}
	u.unsupported(fmt.Sprintf("conversion %s -> %s", from, to))
	return Val{T: u.freshConst("conv", u.sortOf(to)), Ty: to}
}

// strOfBytes: uninterpreted function of the byte content of a slice.
func (x *Executor) strOfBytes(st *State, v Val) string {
	u := x.u
	u.declareFun("str.of", []string{"(Array Int Int)", "Int", "Int"}, "Str")
	comp, _ := u.elemComp(types.Typ[types.Uint8])
	return fmt.Sprintf("(str.of (select %s (s.base %s)) (s.off %s) (s.len %s))", x.heapGet(st, comp), v.T, v.T, v.T)
}

func (x *Executor) execSlice(fr *Frame, st *State, t *ssa.Slice, reach string) Val {
	u := x.u
	xv := x.value(fr, t.X)
	var lo, hi, mx string
	if t.Low != nil {
		lo = x.value(fr, t.Low).T
	} else {
		lo = "0"
	}
	switch xt := t.X.Type().Underlying().(type) {
	case *types.Slice:
		if t.High != nil {
			hi = x.value(fr, t.High).T
		} else {
			hi = fmt.Sprintf("(s.len %s)", xv.T)
		}
		capT := fmt.Sprintf("(s.cap %s)", xv.T)
		if t.Max != nil {
			mx = x.value(fr, t.Max).T
			x.check(fr, "slice", fmt.Sprintf("(and (<= 0 %s) (<= %s %s) (<= %s %s) (<= %s %s))", lo, lo, hi, hi, mx, mx, capT), reach, "slice bounds in range")
		} else {
			mx = capT
			x.check(fr, "slice", fmt.Sprintf("(and (<= 0 %s) (<= %s %s) (<= %s %s))", lo, lo, hi, hi, capT), reach, "slice bounds in range")
		}
		// slicing a nil slice with 0:0 keeps base 0
		return Val{T: u.define("sl", "Slice", fmt.Sprintf("(mk-slice (s.base %[1]s) (+ (s.off %[1]s) %[2]s) (- %[3]s %[2]s) (- %[4]s %[2]s))", xv.T, lo, hi, mx)), Ty: t.Type()}
	case *types.Basic: // string
		if t.High != nil {
			hi = x.value(fr, t.High).T
		} else {
			hi = fmt.Sprintf("(strlen %s)", xv.T)
		}
		x.check(fr, "slice", fmt.Sprintf("(and (<= 0 %s) (<= %s %s) (<= %s (strlen %s)))", lo, lo, hi, hi, xv.T), reach, "string slice bounds in range")
		r := u.define("sub", "Str", fmt.Sprintf("(substr %s %s %s)", xv.T, lo, hi))
		u.assume(fmt.Sprintf("(=> %s (= (strlen %s) (- %s %s)))", reach, r, hi, lo))
		return Val{T: r, Ty: t.Type()}
	case *types.Pointer:
		at := xt.Elem().Underlying().(*types.Array)
		n := fmt.Sprintf("%d", at.Len())
		if t.High != nil {
			hi = x.value(fr, t.High).T
		} else {
			hi = n
		}
		mx = n
		if t.Max != nil {
			mx = x.value(fr, t.Max).T
		}
		x.check(fr, "slice", fmt.Sprintf("(and (<= 0 %s) (<= %s %s) (<= %s %s) (<= %s %s))", lo, lo, hi, hi, mx, mx, n), reach, "array slice bounds in range")
		if xv.Addr != nil && xv.Addr.Kind == "global" && len(xv.Addr.Path) == 0 {
			// a slice of a package-level array: modelled as a slice of a private copy holding the
			// array's current value (reads are exact; a write through the slice would not reach the
			// global, which is noted)
			gv := x.load(st, xv.Addr, reach)
			r := x.allocRef(st, "slice")
			comp, _ := u.elemComp(at.Elem())
			x.heapSet(st, comp, fmt.Sprintf("(store %s %s %s)", x.heapGet(st, comp), r, gv.T))
			u.notes["a slice of a package-level array is modelled as a slice of a copy of its current value (writes through it do not reach the global)"] = true
			return Val{T: u.define("sl", "Slice", fmt.Sprintf("(mk-slice %s %s (- %s %s) (- %s %s))", r, lo, hi, lo, mx, lo)), Ty: t.Type()}
		}
		if xv.Addr != nil && xv.Addr.Kind != "arrobj" {
			u.unsupported("slicing an array that is not a heap object (" + xv.Addr.Kind + ")")
			return Val{T: u.freshConst("sl", "Slice"), Ty: t.Type()}
		}
		ref := xv.T
		if xv.Addr != nil {
			ref = xv.Addr.Ref
		}
		return Val{T: u.define("sl", "Slice", fmt.Sprintf("(mk-slice %s %s (- %s %s) (- %s %s))", ref, lo, hi, lo, mx, lo)), Ty: t.Type()}
	}
	u.unsupported("slice of " + t.X.Type().String())
	return Val{T: u.freshConst("sl", "Slice"), Ty: t.Type()}
}

// ------------------------------------------------------------------ maps

func (x *Executor) mapKey(k Val, kt types.Type) string { return k.T }

func (x *Executor) mapStore(st *State, mt *types.Map, m, k, v string) {
	u := x.u
	pres, val, ln := u.mapComps(mt)
	hp, hv, hl := x.heapGet(st, pres), x.heapGet(st, val), x.heapGet(st, ln)
	was := u.define("had", "Bool", fmt.Sprintf("(select (select %s %s) %s)", hp, m, k))
	x.heapSet(st, pres, fmt.Sprintf("(store %s %s (store (select %s %s) %s true))", hp, m, hp, m, k))
	x.heapSet(st, val, fmt.Sprintf("(store %s %s (store (select %s %s) %s %s))", hv, m, hv, m, k, v))
	x.heapSet(st, ln, fmt.Sprintf("(store %s %s (ite %s (select %s %s) (+ (select %s %s) 1)))", hl, m, was, hl, m, hl, m))
}

func (x *Executor) mapDelete(st *State, mt *types.Map, m, k string) {
	u := x.u
	pres, _, ln := u.mapComps(mt)
	hp, hl := x.heapGet(st, pres), x.heapGet(st, ln)
	was := u.define("had", "Bool", fmt.Sprintf("(and (not (= %s 0)) (select (select %s %s) %s))", m, hp, m, k))
	x.heapSet(st, pres, fmt.Sprintf("(store %s %s (store (select %s %s) %s false))", hp, m, hp, m, k))
	x.heapSet(st, ln, fmt.Sprintf("(store %s %s (ite %s (- (select %s %s) 1) (select %s %s)))", hl, m, was, hl, m, hl, m))
}

func (x *Executor) execNext(fr *Frame, st *State, t *ssa.Next, reach string) {
	u := x.u
	rng, ok := t.Iter.(*ssa.Range)
	if !ok || t.IsString {
		u.unsupported("next over string")
		return
	}
	mt := rng.X.Type().Underlying().(*types.Map)
	mv := x.value(fr, t.Iter)
	g := fmt.Sprintf("visited$%d$%s", fr.id, rng.Name())
	ks := u.sortOf(mt.Key())
	vis, have := st.ghost[g]
	if !have {
		vis = u.freshConst("visited", fmt.Sprintf("(Array %s Bool)", ks))
	}
	pres, val, _ := u.mapComps(mt)
	okc := u.freshConst("next.ok", "Bool")
	k := u.freshConst("next.k", ks)
	hp, hv := x.heapGet(st, pres), x.heapGet(st, val)
	u.assume(fmt.Sprintf("(=> %s (and (not (= %s 0)) (select (select %s %s) %s) (not (select %s %s))))", okc, mv.T, hp, mv.T, k, vis, k))
	u.assume(fmt.Sprintf("(=> (not %s) (forall ((kk %s)) (! (=> (and (not (= %s 0)) (select (select %s %s) kk)) (select %s kk)) :pattern ((select %s kk)))))", okc, ks, mv.T, hp, mv.T, vis, vis))
	if wf := u.wfValue(k, mt.Key(), 0); wf != "true" {
		u.assume(wf)
	}
	v := u.define("next.v", u.sortOf(mt.Elem()), fmt.Sprintf("(select (select %s %s) %s)", hv, mv.T, k))
	if wf := u.wfValue(v, mt.Elem(), 0); wf != "true" {
		u.assume(wf)
	}
	vv := Val{T: v, Ty: mt.Elem()}
	x.assumeAllocated(st, vv)
	st.ghost[g] = u.define("visited", fmt.Sprintf("(Array %s Bool)", ks), fmt.Sprintf("(ite %s (store %s %s true) %s)", okc, vis, k, vis))
	fr.vals[t] = Val{Ty: t.Type(), Tup: []Val{{T: okc, Ty: types.Typ[types.Bool]}, {T: k, Ty: mt.Key()}, vv}}
}

const chanNote = "channels: make/send/receive/select are modelled as non-panicking, non-blocking hand-offs to unknown code (a closed or nil channel, and blocking, are not modelled)"

const goNote = "go statements: a started goroutine is not part of the function's own execution (its arguments escape; its effects are not modelled)"
