package main

// Replay of counterexamples on the real code: the solver's model (or candidate model) is read back
// into concrete Go inputs, a throw-away in-package test is generated and run with `go test -overlay`
// against /repo (nothing is written under /repo). A violation counts as replayed only if the real
// code misbehaves on that input (panics for safety obligations, falsifies the executable
// translation of the clause for postconditions).

import (
	"encoding/json"
	"fmt"
	"go/types"
	"math/big"
	"os"
	"os/exec"
	"path/filepath"
	"regexp"
	"sort"
	"strings"

	"golang.org/x/tools/go/ssa"
)

type inVal struct {
	ty     types.Type
	term   string
	intV   *big.Int
	boolV  bool
	isNil  bool
	strLen int
	length int
	fields map[string]*inVal
	elems  []*inVal
	ok     bool
}

type replayCtx struct {
	u       *Unit
	ob      *Obligation
	fn      *ssa.Function
	script  string
	values  map[string]string
	pending []string
}

// getValues runs the solver on the script plus a get-value command.
func (rc *replayCtx) getValues(terms []string) bool {
	if len(terms) == 0 {
		return true
	}
	var uniq []string
	seen := map[string]bool{}
	for _, t := range terms {
		if _, have := rc.values[t]; !have && !seen[t] {
			seen[t] = true
			uniq = append(uniq, t)
		}
	}
	if len(uniq) == 0 {
		return true
	}
	sc := strings.Replace(rc.script, "(check-sat)\n(get-model)\n", "(check-sat)\n", 1)
	sc = strings.TrimSuffix(strings.TrimSpace(sc), "(check-sat)") + "\n(check-sat)\n(get-value (" + strings.Join(uniq, " ") + "))\n"
	file := writeSMT(rc.ob.Name+".values", sc)
	st, out, _ := runSolver(nil2ctx(), solvers[0], file, 10)
	if st != "sat" {
		return false
	}
	idx := strings.Index(out, "sat")
	vals := parseGetValue(out[idx+3:], len(uniq))
	if len(vals) != len(uniq) {
		return false
	}
	for i, t := range uniq {
		rc.values[t] = vals[i]
	}
	return true
}

// parseGetValue extracts the value parts of ((t v) (t v) ...).
func parseGetValue(s string, n int) []string {
	s = strings.TrimSpace(s)
	toks := sexpTokens(s)
	pos := 0
	var parse func() interface{}
	parse = func() interface{} {
		if pos >= len(toks) {
			return nil
		}
		t := toks[pos]
		pos++
		if t == "(" {
			var l []interface{}
			for pos < len(toks) && toks[pos] != ")" {
				l = append(l, parse())
			}
			pos++
			return l
		}
		return t
	}
	root, ok := parse().([]interface{})
	if !ok {
		return nil
	}
	var out []string
	for _, p := range root {
		pair, ok := p.([]interface{})
		if !ok || len(pair) != 2 {
			return nil
		}
		out = append(out, sexpString(pair[1]))
	}
	return out
}

func sexpTokens(s string) []string {
	var toks []string
	i := 0
	for i < len(s) {
		c := s[i]
		switch {
		case c == ' ' || c == '\n' || c == '\t' || c == '\r':
			i++
		case c == '(' || c == ')':
			toks = append(toks, string(c))
			i++
		case c == '|':
			j := strings.IndexByte(s[i+1:], '|')
			if j < 0 {
				return toks
			}
			toks = append(toks, s[i:i+j+2])
			i += j + 2
		case c == '"':
			j := i + 1
			for j < len(s) && s[j] != '"' {
				j++
			}
			toks = append(toks, s[i:j+1])
			i = j + 1
		default:
			j := i
			for j < len(s) && !strings.ContainsRune(" \n\t\r()", rune(s[j])) {
				j++
			}
			toks = append(toks, s[i:j])
			i = j
		}
	}
	return toks
}

func sexpString(v interface{}) string {
	switch t := v.(type) {
	case string:
		return t
	case []interface{}:
		var parts []string
		for _, e := range t {
			parts = append(parts, sexpString(e))
		}
		return "(" + strings.Join(parts, " ") + ")"
	}
	return ""
}

func parseSMTInt(v string) (*big.Int, bool) {
	v = strings.TrimSpace(v)
	if strings.HasPrefix(v, "(- ") {
		n, ok := new(big.Int).SetString(strings.TrimSuffix(strings.TrimPrefix(v, "(- "), ")"), 10)
		if !ok {
			return nil, false
		}
		return n.Neg(n), true
	}
	n, ok := new(big.Int).SetString(v, 10)
	return n, ok
}

const replayMaxElems = 48

// describe builds the input value tree for a term of a Go type, requesting model values lazily;
// it returns false while values are still missing (another pass is needed).
func (rc *replayCtx) describe(term string, ty types.Type, depth int) *inVal {
	u := rc.u
	v := &inVal{ty: ty, term: term}
	need := func(t string) (string, bool) {
		if val, ok := rc.values[t]; ok {
			return val, true
		}
		rc.pending = append(rc.pending, t)
		return "", false
	}
	entry := func(comp string) (string, bool) {
		if _, ok := u.heapSorts[comp]; !ok {
			return "", false
		}
		n := q(comp + "@0")
		if !u.declSeen[n] {
			return "", false
		}
		return n, true
	}
	switch tt := ty.Underlying().(type) {
	case *types.Basic:
		switch {
		case tt.Info()&types.IsBoolean != 0:
			if val, ok := need(term); ok {
				v.boolV = val == "true"
				v.ok = true
			}
		case tt.Info()&types.IsInteger != 0:
			if val, ok := need(term); ok {
				if n, ok2 := parseSMTInt(val); ok2 {
					v.intV = n
					v.ok = true
				}
			}
		case tt.Info()&types.IsString != 0:
			if val, ok := need("(strlen " + term + ")"); ok {
				if n, ok2 := parseSMTInt(val); ok2 && n.IsInt64() && n.Int64() >= 0 && n.Int64() <= 4096 {
					v.strLen = int(n.Int64())
					v.ok = true
				}
			}
		}
	case *types.Array:
		if !isInteger(tt.Elem()) || tt.Len() > 64 {
			return v
		}
		all := true
		for i := int64(0); i < tt.Len(); i++ {
			e := rc.describe(fmt.Sprintf("(select %s %d)", term, i), tt.Elem(), depth+1)
			v.elems = append(v.elems, e)
			all = all && e.ok
		}
		v.ok = all
	case *types.Slice:
		ln, ok1 := need("(s.len " + term + ")")
		base, ok2 := need("(s.base " + term + ")")
		if !ok1 || !ok2 {
			return v
		}
		n, okn := parseSMTInt(ln)
		b, okb := parseSMTInt(base)
		if !okn || !okb || !n.IsInt64() || n.Int64() < 0 || n.Int64() > 1<<20 {
			return v
		}
		v.length = int(n.Int64())
		if b.Sign() == 0 && v.length == 0 {
			v.isNil = true
			v.ok = true
			return v
		}
		if depth > 2 {
			return v
		}
		comp, _ := u.elemComp(tt.Elem())
		e0, have := entry(comp)
		all := true
		for i := 0; i < v.length && i < replayMaxElems; i++ {
			if !have {
				// component never read: contents are irrelevant
				z := &inVal{ty: tt.Elem(), ok: true, intV: big.NewInt(0), isNil: true}
				v.elems = append(v.elems, z)
				continue
			}
			et := fmt.Sprintf("(select (select %s (s.base %s)) (sidx (s.off %s) %d))", e0, term, term, i)
			e := rc.describe(et, tt.Elem(), depth+1)
			v.elems = append(v.elems, e)
			all = all && e.ok
		}
		v.ok = all
	case *types.Pointer:
		ref, ok := need(term)
		if !ok {
			return v
		}
		r, okr := parseSMTInt(ref)
		if !okr {
			return v
		}
		if r.Sign() == 0 {
			v.isNil = true
			v.ok = true
			return v
		}
		st, isS := tt.Elem().Underlying().(*types.Struct)
		if !isS || depth > 2 {
			if at, isA := tt.Elem().Underlying().(*types.Array); isA && isInteger(at.Elem()) && at.Len() <= 64 {
				comp, _ := u.elemComp(at.Elem())
				if e0, have := entry(comp); have {
					inner := rc.describe(fmt.Sprintf("(select %s %s)", e0, term), tt.Elem(), depth+1)
					v.fields = map[string]*inVal{"*": inner}
					v.ok = inner.ok
				}
			}
			return v
		}
		v.fields = map[string]*inVal{}
		all := true
		for i := 0; i < st.NumFields(); i++ {
			f := st.Field(i)
			var ft string
			if isFlattened(f.Type()) {
				sr := u.subRef(tt.Elem(), f.Name(), term)
				if at, isA := f.Type().Underlying().(*types.Array); isA {
					comp, _ := u.elemComp(at.Elem())
					e0, have := entry(comp)
					if !have {
						continue
					}
					ft = fmt.Sprintf("(select %s %s)", e0, sr)
				} else {
					// nested struct value: described through a pseudo pointer
					fv := rc.describe(sr, types.NewPointer(f.Type()), depth+1)
					fv.ty = f.Type()
					v.fields[f.Name()] = fv
					all = all && fv.ok
					continue
				}
			} else {
				comp, _ := u.fieldComp(tt.Elem(), f.Name())
				e0, have := entry(comp)
				if !have {
					continue // never read: leave the zero value
				}
				ft = fmt.Sprintf("(select %s %s)", e0, term)
			}
			fv := rc.describe(ft, f.Type(), depth+1)
			v.fields[f.Name()] = fv
			all = all && fv.ok
		}
		v.ok = all
	case *types.Struct:
		u.sortOf(ty)
		v.fields = map[string]*inVal{}
		all := true
		for i := 0; i < tt.NumFields(); i++ {
			fv := rc.describe(fmt.Sprintf("(%s %s)", u.fieldAcc(ty, i), term), tt.Field(i).Type(), depth+1)
			v.fields[tt.Field(i).Name()] = fv
			all = all && fv.ok
		}
		v.ok = all
	}
	return v
}

// goLiteral renders an input value as a Go expression (ok=false: not expressible).
func (rc *replayCtx) goLiteral(v *inVal, pkg *types.Package) (string, bool) {
	if v == nil || !v.ok {
		return "", false
	}
	qual := func(p *types.Package) string {
		if p == pkg {
			return ""
		}
		return p.Name()
	}
	tname := types.TypeString(v.ty, qual)
	switch tt := v.ty.Underlying().(type) {
	case *types.Basic:
		switch {
		case tt.Info()&types.IsBoolean != 0:
			return fmt.Sprintf("%s(%v)", tname, v.boolV), true
		case tt.Info()&types.IsInteger != 0:
			if v.intV == nil {
				return tname + "(0)", true
			}
			lo, hi, okb := intBounds(v.ty)
			if okb && (v.intV.Cmp(lo) < 0 || v.intV.Cmp(hi) > 0) {
				return "", false
			}
			return fmt.Sprintf("%s(%s)", tname, v.intV.String()), true
		case tt.Info()&types.IsString != 0:
			return fmt.Sprintf("%s(strings.Repeat(\"a\", %d))", tname, v.strLen), true
		}
	case *types.Array:
		var parts []string
		for _, e := range v.elems {
			l, ok := rc.goLiteral(e, pkg)
			if !ok {
				return "", false
			}
			parts = append(parts, l)
		}
		return tname + "{" + strings.Join(parts, ", ") + "}", true
	case *types.Slice:
		if v.isNil {
			return tname + "(nil)", true
		}
		if v.length > 1<<16 {
			return "", false
		}
		if v.length > replayMaxElems {
			if !isInteger(tt.Elem()) {
				return "", false
			}
			var sets []string
			for i, e := range v.elems {
				l, ok := rc.goLiteral(e, pkg)
				if !ok {
					return "", false
				}
				sets = append(sets, fmt.Sprintf("s[%d] = %s", i, l))
			}
			return fmt.Sprintf("func() %s { s := make(%s, %d); %s; return s }()", tname, tname, v.length, strings.Join(sets, "; ")), true
		}
		var parts []string
		for _, e := range v.elems {
			if e.isNil && e.intV != nil && !isInteger(tt.Elem()) {
				parts = append(parts, "nil")
				continue
			}
			l, ok := rc.goLiteral(e, pkg)
			if !ok {
				return "", false
			}
			parts = append(parts, l)
		}
		return tname + "{" + strings.Join(parts, ", ") + "}", true
	case *types.Pointer:
		if v.isNil {
			return "(" + tname + ")(nil)", true
		}
		if inner, ok := v.fields["*"]; ok {
			l, ok2 := rc.goLiteral(inner, pkg)
			if !ok2 {
				return "", false
			}
			return fmt.Sprintf("func() %s { x := %s; return &x }()", tname, l), true
		}
		st, isS := tt.Elem().Underlying().(*types.Struct)
		if !isS {
			return "", false
		}
		body, ok := rc.structBody(v, st, tt.Elem(), pkg)
		if !ok {
			return "", false
		}
		return "&" + types.TypeString(tt.Elem(), qual) + "{" + body + "}", true
	case *types.Struct:
		body, ok := rc.structBody(v, tt, v.ty, pkg)
		if !ok {
			return "", false
		}
		return tname + "{" + body + "}", true
	}
	return "", false
}

func (rc *replayCtx) structBody(v *inVal, st *types.Struct, ty types.Type, pkg *types.Package) (string, bool) {
	var parts []string
	var names []string
	for n := range v.fields {
		names = append(names, n)
	}
	sort.Strings(names)
	own := false
	if n, ok := ty.(*types.Named); ok && n.Obj().Pkg() == pkg {
		own = true
	}
	for _, n := range names {
		f := v.fields[n]
		exported := n != "" && strings.ToUpper(n[:1]) == n[:1]
		if !exported && !own {
			continue
		}
		// mutexes and other library structs keep their zero value
		if nt, ok := f.ty.(*types.Named); ok && nt.Obj().Pkg() != nil && !strings.HasPrefix(nt.Obj().Pkg().Path(), repoModule) {
			if _, isS := f.ty.Underlying().(*types.Struct); isS {
				continue
			}
		}
		l, ok := rc.goLiteral(f, pkg)
		if !ok {
			return "", false
		}
		parts = append(parts, n+": "+l)
	}
	return strings.Join(parts, ", "), true
}

var identRe = regexp.MustCompile(`^[A-Za-z_][A-Za-z0-9_]*$`)

// goOracle translates a clause into an executable Go boolean over the parameters (as variables
// named p0..pn via binds), the results r0.. and values captured before the call.
type oracleGen struct {
	binds   map[string]string // spec name -> Go expression
	pre     []string          // statements to run before the call (captures for old())
	nOld    int
	pkg     *types.Package
	failed  bool
	imports map[string]bool
	specs   map[string]*SpecFunc
	helpers map[string]string // emitted Go helper functions for spec functions
	order   []string
}

func isIntTypeExpr(t *TypeExpr) bool {
	if t == nil || t.Kind != "name" {
		return false
	}
	switch t.Name {
	case "int", "int8", "int16", "int32", "int64", "uint", "uint8", "uint16", "uint32", "uint64", "byte", "mathint", "uintptr":
		return true
	}
	return false
}

func isBoolTypeExpr(t *TypeExpr) bool { return t != nil && t.Kind == "name" && t.Name == "bool" }

// specCall emits (once) a Go function for a spec function with a body and returns the call.
func (g *oracleGen) specCall(sf *SpecFunc, args []Expr) string {
	if sf.Body == nil || len(args) != len(sf.Params) {
		g.failed = true
		return "nil"
	}
	name := "spec_" + sf.Name
	if _, ok := g.helpers[name]; !ok {
		g.helpers[name] = "" // recursion guard
		sub := &oracleGen{binds: map[string]string{}, pkg: g.pkg, specs: g.specs, helpers: g.helpers}
		var ps []string
		for _, p := range sf.Params {
			ty := p.Type.String()
			if isIntTypeExpr(p.Type) {
				ty = "*big.Int"
			}
			ps = append(ps, "a_"+p.Name+" "+ty)
			sub.binds[p.Name] = "a_" + p.Name
		}
		var body, rty string
		switch {
		case isIntTypeExpr(sf.Result):
			rty, body = "*big.Int", sub.num(sf.Body)
		case isBoolTypeExpr(sf.Result):
			rty, body = "bool", sub.boolean(sf.Body)
		default:
			rty, body = sf.Result.String(), sub.expr(sf.Body, false)
		}
		if sub.failed || len(sub.pre) > 0 {
			g.failed = true
		}
		g.order = append(g.order, sub.order...)
		g.helpers[name] = fmt.Sprintf("func %s(%s) %s { return %s }\n", name, strings.Join(ps, ", "), rty, body)
		g.order = append(g.order, name)
	}
	var as []string
	for i, p := range sf.Params {
		switch {
		case isIntTypeExpr(p.Type):
			as = append(as, g.num(args[i]))
		case isBoolTypeExpr(p.Type):
			as = append(as, g.boolean(args[i]))
		default:
			as = append(as, g.expr(args[i], false))
		}
	}
	return name + "(" + strings.Join(as, ", ") + ")"
}

func (g *oracleGen) specOf(e Expr) *SpecFunc {
	if c, ok := e.(*ECall); ok {
		if id, ok := c.Fun.(*EIdent); ok {
			if sf, ok := g.specs[id.Name]; ok {
				return sf
			}
		}
	}
	return nil
}

func (g *oracleGen) expr(e Expr, inOld bool) string {
	switch t := e.(type) {
	case *ELit:
		if t.Kind == "int" || t.Kind == "string" || t.Kind == "char" {
			return t.Val
		}
	case *EIdent:
		if t.Name == "nil" || t.Name == "true" || t.Name == "false" {
			return t.Name
		}
		if b, ok := g.binds[t.Name]; ok {
			return b
		}
		if g.pkg != nil && g.pkg.Scope().Lookup(t.Name) != nil {
			return t.Name
		}
		g.failed = true
		return "nil"
	case *ESel:
		return g.expr(t.X, inOld) + "." + t.Name
	case *EIndex:
		return g.expr(t.X, inOld) + "[" + g.intExpr(t.I, inOld) + "]"
	case *ECall:
		if id, ok := t.Fun.(*EIdent); ok {
			switch id.Name {
			case "len":
				return "len(" + g.expr(t.Args[0], inOld) + ")"
			case "old":
				// capture before the call
				inner := g.expr(t.Args[0], true)
				name := fmt.Sprintf("old%d", g.nOld)
				g.nOld++
				g.pre = append(g.pre, name+" := "+inner)
				return name
			}
		}
		if sf := g.specOf(e); sf != nil {
			return g.specCall(sf, t.Args)
		}
		g.failed = true
		return "nil"
	case *EUnary:
		if t.Op == "*" {
			return "(*" + g.expr(t.X, inOld) + ")"
		}
	}
	g.failed = true
	return "nil"
}

// intExpr renders an integer-valued expression as a Go int expression (for indices).
func (g *oracleGen) intExpr(e Expr, inOld bool) string {
	if l, ok := e.(*ELit); ok && l.Kind == "int" {
		return l.Val
	}
	return "int(" + g.num(e) + ".Int64())"
}

// num renders a numeric expression as *big.Int (mathematical semantics, like the spec).
func (g *oracleGen) num(e Expr) string {
	switch t := e.(type) {
	case *ELit:
		if t.Kind == "int" {
			return "mustBig(\"" + t.Val + "\")"
		}
	case *EUnary:
		if t.Op == "-" {
			return "new(big.Int).Neg(" + g.num(t.X) + ")"
		}
	case *EBinary:
		ops := map[string]string{"+": "Add", "-": "Sub", "*": "Mul", "/": "Quo", "%": "Rem"}
		if m, ok := ops[t.Op]; ok {
			return "new(big.Int)." + m + "(" + g.num(t.X) + ", " + g.num(t.Y) + ")"
		}
	case *ECall:
		if id, ok := t.Fun.(*EIdent); ok {
			switch id.Name {
			case "min", "max":
				cmp := "<"
				if id.Name == "max" {
					cmp = ">"
				}
				return fmt.Sprintf("func() *big.Int { a, b := %s, %s; if a.Cmp(b) %s 0 { return a }; return b }()", g.num(t.Args[0]), g.num(t.Args[1]), cmp)
			case "len":
				return "big.NewInt(int64(len(" + g.expr(t.Args[0], false) + ")))"
			case "ite":
				return fmt.Sprintf("func() *big.Int { if %s { return %s }; return %s }()", g.boolean(t.Args[0]), g.num(t.Args[1]), g.num(t.Args[2]))
			case "pow2":
				return "new(big.Int).Lsh(big.NewInt(1), uint(" + g.num(t.Args[0]) + ".Int64()))"
			}
		}
		if sf := g.specOf(e); sf != nil {
			return g.specCall(sf, t.Args)
		}
	}
	// a Go integer value
	return "toBig(" + g.expr(e, false) + ")"
}

func (g *oracleGen) boolean(e Expr) string {
	switch t := e.(type) {
	case *EBinary:
		switch t.Op {
		case "&&":
			return "(" + g.boolean(t.X) + " && " + g.boolean(t.Y) + ")"
		case "||":
			return "(" + g.boolean(t.X) + " || " + g.boolean(t.Y) + ")"
		case "==>":
			return "(!" + g.boolean(t.X) + " || " + g.boolean(t.Y) + ")"
		case "<==>":
			return "(" + g.boolean(t.X) + " == " + g.boolean(t.Y) + ")"
		case "<", "<=", ">", ">=":
			return "(" + g.num(t.X) + ".Cmp(" + g.num(t.Y) + ") " + t.Op + " 0)"
		case "==", "!=":
			if g.isNumeric(t.X) || g.isNumeric(t.Y) {
				return "(" + g.num(t.X) + ".Cmp(" + g.num(t.Y) + ") " + t.Op + " 0)"
			}
			return "(reflectEq(" + g.expr(t.X, false) + ", " + g.expr(t.Y, false) + ") " + map[string]string{"==": "== true", "!=": "== false"}[t.Op] + ")"
		}
	case *EUnary:
		if t.Op == "!" {
			return "!" + g.boolean(t.X)
		}
	case *ECall:
		if id, ok := t.Fun.(*EIdent); ok && id.Name == "ite" && len(t.Args) == 3 {
			return fmt.Sprintf("func() bool { if %s { return %s }; return %s }()", g.boolean(t.Args[0]), g.boolean(t.Args[1]), g.boolean(t.Args[2]))
		}
		return g.expr(e, false)
	case *EIdent, *ESel:
		return g.expr(e, false)
	}
	g.failed = true
	return "true"
}

func (g *oracleGen) isNumeric(e Expr) bool {
	if sf := g.specOf(e); sf != nil {
		return isIntTypeExpr(sf.Result)
	}
	if c, ok := e.(*ECall); ok {
		if id, ok := c.Fun.(*EIdent); ok && id.Name == "ite" && len(c.Args) == 3 {
			return g.isNumeric(c.Args[1]) || g.isNumeric(c.Args[2])
		}
		if id, ok := c.Fun.(*EIdent); ok && id.Name == "pow2" {
			return true
		}
	}
	return isNumericExpr(e)
}

func isNumericExpr(e Expr) bool {
	switch t := e.(type) {
	case *ELit:
		return t.Kind == "int"
	case *EBinary:
		switch t.Op {
		case "+", "-", "*", "/", "%":
			return true
		}
	case *EUnary:
		return t.Op == "-"
	case *ECall:
		if id, ok := t.Fun.(*EIdent); ok {
			return id.Name == "min" || id.Name == "max" || id.Name == "len"
		}
	}
	return false
}

const replayHelpers = `
func mustBig(s string) *big.Int { n, ok := new(big.Int).SetString(s, 0); if !ok { panic("bad int " + s) }; return n }
func toBig(v interface{}) *big.Int {
	if b, ok := v.(*big.Int); ok {
		return b
	}
	rv := reflect.ValueOf(v)
	switch rv.Kind() {
	case reflect.Int, reflect.Int8, reflect.Int16, reflect.Int32, reflect.Int64:
		return big.NewInt(rv.Int())
	case reflect.Uint, reflect.Uint8, reflect.Uint16, reflect.Uint32, reflect.Uint64, reflect.Uintptr:
		return new(big.Int).SetUint64(rv.Uint())
	case reflect.Bool:
		if rv.Bool() { return big.NewInt(1) }
		return big.NewInt(0)
	}
	panic(fmt.Sprintf("not an integer: %T", v))
}
func reflectEq(a, b interface{}) bool {
	if a == nil || b == nil {
		isNil := func(x interface{}) bool { if x == nil { return true }; v := reflect.ValueOf(x); switch v.Kind() { case reflect.Ptr, reflect.Slice, reflect.Map, reflect.Interface, reflect.Func, reflect.Chan: return v.IsNil() }; return false }
		return isNil(a) && isNil(b)
	}
	return reflect.DeepEqual(a, b)
}
`

// tryReplay attempts to confirm a failing obligation on the real code.
func tryReplay(o CheckOpts, ob *Obligation) (string, bool) {
	defer func() { recover() }()
	u := ob.Unit
	if u == nil || u.replayFn == nil || u.replayCon == nil {
		return "", false
	}
	model := ob.Result.Model
	candidate := false
	if model == "" && ob.Result.Candidate != "" {
		candidate = true
	}
	if model == "" && !candidate {
		return "", false
	}
	isSafe := strings.HasPrefix(ob.Kind, "safe:")
	if !isSafe && ob.Kind != "ensures" {
		return "", false
	}
	if strings.Contains(ob.Name, "@") && strings.Contains(strings.SplitN(ob.Name, "#", 2)[0], "@") && !isSafe {
		return "", false
	}
	fn, con := u.replayFn, u.replayCon
	script := u.Script(ob.ScriptLn, "(not "+ob.Goal+")", false)
	if candidate {
		var b strings.Builder
		for _, l := range strings.Split(script, "\n") {
			if strings.HasPrefix(l, "(assert") && (strings.Contains(l, "(forall ") || strings.Contains(l, "(exists ")) {
				continue
			}
			b.WriteString(l + "\n")
		}
		script = b.String()
	}
	rc := &replayCtx{u: u, ob: ob, fn: fn, script: script, values: map[string]string{}}
	var ins []*inVal
	for pass := 0; pass < 5; pass++ {
		rc.pending = nil
		ins = nil
		for i, p := range fn.Params {
			ins = append(ins, rc.describe(u.replayParams[i], p.Type(), 0))
		}
		if len(rc.pending) == 0 {
			break
		}
		if !rc.getValues(rc.pending) {
			return "could not read the model back (solver did not return values)", false
		}
	}
	pkg := fn.Pkg.Pkg
	var decl []string
	var args []string
	binds := map[string]string{}
	for i, v := range ins {
		lit, ok := rc.goLiteral(v, pkg)
		if !ok {
			return fmt.Sprintf("input %s of type %s is outside what the replay generator can construct", con.Params[i], fn.Params[i].Type()), false
		}
		decl = append(decl, fmt.Sprintf("\tp%d := %s", i, lit))
		args = append(args, fmt.Sprintf("p%d", i))
		binds[con.Params[i]] = fmt.Sprintf("p%d", i)
	}
	// call expression
	var call string
	nres := fn.Signature.Results().Len()
	var resNames []string
	for i := 0; i < nres; i++ {
		resNames = append(resNames, fmt.Sprintf("r%d", i))
		if i < len(con.Results) {
			binds[con.Results[i]] = fmt.Sprintf("r%d", i)
		}
	}
	if nres == 1 {
		binds["result"] = "r0"
	}
	if fn.Signature.Recv() != nil {
		call = fmt.Sprintf("p0.%s(%s)", fn.Name(), strings.Join(args[1:], ", "))
		if _, isPtr := fn.Signature.Recv().Type().(*types.Pointer); !isPtr {
			call = fmt.Sprintf("p0.%s(%s)", fn.Name(), strings.Join(args[1:], ", "))
		}
	} else {
		call = fmt.Sprintf("%s(%s)", fn.Name(), strings.Join(args, ", "))
	}
	var body strings.Builder
	body.WriteString(strings.Join(decl, "\n") + "\n")
	oracleDesc := ""
	helperSrc := ""
	if isSafe {
		oracleDesc = "the real function panics on this input"
		body.WriteString("\tdefer func() {\n\t\tif r := recover(); r != nil {\n\t\t\tfmt.Printf(\"REPLAY-CONFIRMED panic: %v\\n\", r)\n\t\t\treturn\n\t\t}\n\t\tfmt.Println(\"REPLAY-NOT-CONFIRMED no panic\")\n\t}()\n")
		for i := range args {
			body.WriteString(fmt.Sprintf("\t_ = p%d\n", i))
		}
		body.WriteString("\t" + call + "\n")
	} else {
		var clause *Clause
		for _, c := range con.Ensures {
			if c.Src == ob.Clause {
				clause = c
			}
		}
		if clause == nil {
			return "", false
		}
		g := &oracleGen{binds: binds, pkg: pkg, specs: u.eng.specs.Funcs[pkg.Path()], helpers: map[string]string{}}
		cond := g.boolean(clause.E)
		for _, h := range g.order {
			helperSrc += g.helpers[h]
		}
		if g.failed {
			return "the clause uses specification constructs that have no executable translation (spec functions, quantifiers, content); no oracle", false
		}
		oracleDesc = "the executable translation of the clause is false after the call"
		for _, p := range g.pre {
			body.WriteString("\t" + p + "\n")
		}
		body.WriteString("\tdefer func() {\n\t\tif r := recover(); r != nil {\n\t\t\tfmt.Printf(\"REPLAY-NOT-CONFIRMED panic: %v\\n\", r)\n\t\t}\n\t}()\n")
		if nres > 0 {
			body.WriteString("\t" + strings.Join(resNames, ", ") + " := " + call + "\n")
			for _, r := range resNames {
				body.WriteString("\t_ = " + r + "\n")
			}
		} else {
			body.WriteString("\t" + call + "\n")
		}
		for i := range args {
			body.WriteString(fmt.Sprintf("\t_ = p%d\n", i))
		}
		body.WriteString("\tif !(" + cond + ") {\n\t\tfmt.Println(\"REPLAY-CONFIRMED clause violated\")\n\t} else {\n\t\tfmt.Println(\"REPLAY-NOT-CONFIRMED clause holds on this input\")\n\t}\n")
	}
	// imports of packages named in literals
	imports := map[string]string{"fmt": "fmt", "testing": "testing", "math/big": "math/big", "reflect": "reflect", "strings": "strings"}
	src := body.String()
	for path, p := range u.eng.allPkgs {
		if p.Types == nil || p.Types == pkg {
			continue
		}
		if regexp.MustCompile(`\b` + regexp.QuoteMeta(p.Types.Name()) + `\.`).MatchString(src) {
			if _, taken := imports[path]; !taken {
				dup := false
				for ip := range imports {
					if ip != path && filepath.Base(ip) == p.Types.Name() {
						dup = true
					}
				}
				if !dup && (strings.HasPrefix(path, repoModule) || !strings.Contains(path, "internal")) {
					imports[path] = p.Types.Name()
				}
			}
		}
	}
	var imp []string
	for path := range imports {
		imp = append(imp, fmt.Sprintf("\t%q", path))
	}
	sort.Strings(imp)
	test := fmt.Sprintf("package %s\n\nimport (\n%s\n)\n\nvar _ = strings.Repeat\nvar _ = reflect.DeepEqual\nvar _ = big.NewInt\n%s\n// Replay of obligation %s\nfunc TestGovcReplay(t *testing.T) {\n%s}\n", pkg.Name(), strings.Join(imp, "\n"), replayHelpers+helperSrc, ob.Name, src)
	out, confirmed := runReplayTest(pkg.Path(), test)
	var rep strings.Builder
	kind := "model"
	if candidate {
		kind = "candidate model (quantified hypotheses dropped)"
	}
	fmt.Fprintf(&rep, "input taken from the solver's %s; oracle: %s\n", kind, oracleDesc)
	fmt.Fprintf(&rep, "--- BEGIN GO REPLAY TEST (package %s) ---\n%s--- END GO REPLAY TEST ---\n", pkg.Path(), test)
	fmt.Fprintf(&rep, "go test output:\n%s\n", out)
	if confirmed {
		rep.WriteString("RESULT: the violation reproduces on the real code\n")
	} else {
		rep.WriteString("RESULT: not reproduced on the real code with this input\n")
	}
	return rep.String(), confirmed
}

// replayOverlay: source replacements in force for this run (selftest / --overlay), passed on to go test
var replayOverlay = map[string]string{}

func runReplayTest(pkgPath, test string) (string, bool) {
	rel := strings.TrimPrefix(pkgPath, repoModule)
	dir := "/repo" + rel
	testFile := filepath.Join(Scratch(), "zz_govc_replay_test.go")
	os.WriteFile(testFile, []byte(test), 0o644)
	ov := map[string]map[string]string{"Replace": {filepath.Join(dir, "zz_govc_replay_test.go"): testFile}}
	for k, v := range replayOverlay {
		ov["Replace"][k] = v
	}
	ovb, _ := json.Marshal(ov)
	ovFile := filepath.Join(Scratch(), "overlay.json")
	os.WriteFile(ovFile, ovb, 0o644)
	cmd := exec.Command("bash", "-c", fmt.Sprintf("ulimit -v 8000000; cd %s && go test -overlay %s -vet=off -count=1 -v -timeout 60s -run '^TestGovcReplay$' . 2>&1 | tail -40", dir, ovFile))
	cmd.Env = envOffline()
	out, _ := cmd.CombinedOutput()
	s := string(out)
	return s, strings.Contains(s, "REPLAY-CONFIRMED")
}

// runReplayFile re-runs the Go replay test stored in a replay file.
func runReplayFile(path string) int {
	b, err := os.ReadFile(path)
	if err != nil {
		return 2
	}
	s := string(b)
	i := strings.Index(s, "--- BEGIN GO REPLAY TEST (package ")
	j := strings.Index(s, "--- END GO REPLAY TEST ---")
	if i < 0 || j < 0 {
		fmt.Println("\n(govc replay: this violation has no executable replay; the file above names the failed obligation and carries the solver output)")
		return 0
	}
	hdr := s[i+len("--- BEGIN GO REPLAY TEST (package "):]
	k := strings.Index(hdr, ") ---\n")
	pkgPath := hdr[:k]
	test := hdr[k+len(") ---\n") : strings.Index(hdr, "--- END GO REPLAY TEST ---")]
	out, confirmed := runReplayTest(pkgPath, test)
	fmt.Println("\n== re-running the replay test against /repo ==")
	fmt.Println(out)
	if confirmed {
		fmt.Println("violation reproduces")
		return 1
	}
	fmt.Println("violation does not reproduce on the current tree")
	return 0
}
