package main

import (
	"os"

	"golang.org/x/tools/go/packages"
	"golang.org/x/tools/go/ssa"
	"golang.org/x/tools/go/ssa/ssautil"
)

func main() {
	cfg := &packages.Config{Mode: packages.LoadAllSyntax, Dir: "/repo", BuildFlags: []string{"-tags=verif"}}
	pkgs, err := packages.Load(cfg, os.Args[1])
	if err != nil {
		panic(err)
	}
	prog, spkgs := ssautil.AllPackages(pkgs, ssa.NaiveForm|ssa.GlobalDebug)
	prog.Build()
	for _, p := range spkgs {
		for _, name := range os.Args[2:] {
			if f := p.Func(name); f != nil {
				f.WriteTo(os.Stdout)
			}
			for _, m := range p.Members {
				if t, ok := m.(*ssa.Type); ok {
					for _, recv := range []interface{ }{t.Type()} {
						_ = recv
					}
					ms := prog.MethodSets.MethodSet(ptrTo(t))
					for i := 0; i < ms.Len(); i++ {
						if fn := prog.MethodValue(ms.At(i)); fn != nil && fn.Name() == name {
							fn.WriteTo(os.Stdout)
						}
					}
				}
			}
		}
	}
}
