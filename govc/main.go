package main

import (
	"context"
	"flag"
	"fmt"
	"os"
	"strings"
)

func nil2ctx() context.Context { return context.Background() }

func LoadAllSpecsOverlay(repo, specDir string, overlay map[string][]byte) (*SpecSet, error) {
	return LoadAllSpecs(repo, specDir)
}

func usage() {
	fmt.Fprintln(os.Stderr, `usage: govc check <ID> [--tier quick|thorough] [--only substr] [--debug] [--dump]
       govc inventory <ID>
       govc replay <path>
       govc selftest [ID]`)
	os.Exit(2)
}

func main() {
	if len(os.Args) < 2 {
		usage()
	}
	cmd := os.Args[1]
	defer CleanScratch()
	switch cmd {
	case "check", "inventory":
		if len(os.Args) < 3 {
			usage()
		}
		fs := flag.NewFlagSet(cmd, flag.ExitOnError)
		tier := fs.String("tier", os.Getenv("VERIF_TIER"), "quick|thorough")
		only := fs.String("only", "", "only functions whose key contains this")
		debug := fs.Bool("debug", false, "panic on engine errors")
		dump := fs.Bool("dump", false, "keep and list SMT files")
		timeout := fs.Int("timeout", 0, "per-query timeout (s)")
		noevid := fs.Bool("noevidence", false, "do not rewrite the evidence file (used when checking seeded changes)")
		var overlays multiFlag
		fs.Var(&overlays, "overlay", "path=replacementfile (in-memory patch of a /repo file)")
		fs.Parse(os.Args[3:])
		if *tier == "" {
			*tier = "quick"
		}
		if *dump {
			os.Setenv("GOVC_KEEP", "1")
		}
		o := CheckOpts{Prop: os.Args[2], Tier: *tier, Only: *only, Debug: *debug, Dump: *dump, Timeout: *timeout}
		if len(overlays) > 0 {
			o.Overlay = map[string][]byte{}
			for _, ov := range overlays {
				kv := strings.SplitN(ov, "=", 2)
				b, err := os.ReadFile(kv[1])
				if err != nil {
					fmt.Fprintln(os.Stderr, err)
					os.Exit(2)
				}
				o.Overlay[kv[0]] = b
				replayOverlay[kv[0]] = kv[1]
			}
			o.NoEvid = true
		}
		if *only != "" || *noevid {
			o.NoEvid = true
		}
		res := RunCheck(o)
		if cmd == "inventory" {
			if res.LoadErr != nil {
				fmt.Fprintln(os.Stderr, res.LoadErr)
				CleanScratch()
				os.Exit(1)
			}
			if err := writeInventory(o.Prop, res.Obls); err != nil {
				fmt.Fprintln(os.Stderr, err)
				os.Exit(1)
			}
			fmt.Printf("inventory for %s written (%d names)\n", o.Prop, len(inventoryNames(res.Obls)))
			return
		}
		code := res.Report(o)
		if len(res.Notes) > 0 && !o.Quiet && os.Getenv("GOVC_NOTES") != "" {
			for _, n := range res.Notes {
				fmt.Println("  note:", n)
			}
		}
		CleanScratch()
		os.Exit(code)
	case "replay":
		if len(os.Args) < 3 {
			usage()
		}
		b, err := os.ReadFile(os.Args[2])
		if err != nil {
			fmt.Fprintln(os.Stderr, err)
			os.Exit(2)
		}
		fmt.Print(string(b))
		os.Exit(runReplayFile(os.Args[2]))
	case "selftest":
		os.Exit(runSelftest(os.Args[2:]))
	default:
		usage()
	}
}

type multiFlag []string

func (m *multiFlag) String() string     { return strings.Join(*m, ",") }
func (m *multiFlag) Set(s string) error { *m = append(*m, s); return nil }
