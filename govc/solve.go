package main

// Solver back ends: z3-new 5.1.0, z3 4.8.12, cvc5 1.0.x raced per obligation.

import (
	"bytes"
	"context"
	"fmt"
	"os"
	"os/exec"
	"path/filepath"
	"strings"
	"sync"
	"time"
)

type SolveResult struct {
	Status string // unsat, sat, unknown, timeout, error
	Solver string
	Ms     int64
	Model  string
	Output string
	// Candidate: model of the goal's negation under the quantifier-free part of the hypotheses
	Candidate string
	Tried     []string
}

type solverDef struct {
	name string
	bin  string
	args func(timeoutS int) []string
}

var solvers = []solverDef{
	{"z3-new-5.1.0", "z3-new", func(t int) []string { return []string{fmt.Sprintf("-T:%d", t), "-smt2"} }},
	{"z3-4.8.12", "/usr/bin/z3", func(t int) []string { return []string{fmt.Sprintf("-T:%d", t), "-smt2"} }},
	{"cvc5-1.0", "cvc5", func(t int) []string {
		return []string{fmt.Sprintf("--tlimit=%d", t*1000), "--lang=smt2", "--produce-models"}
	}},
}

func runSolver(ctx context.Context, s solverDef, file string, timeoutS int) (status, out string, ms int64) {
	start := time.Now()
	cctx, cancel := context.WithTimeout(ctx, time.Duration(timeoutS+2)*time.Second)
	defer cancel()
	cmd := exec.CommandContext(cctx, s.bin, append(s.args(timeoutS), file)...)
	var buf bytes.Buffer
	cmd.Stdout = &buf
	cmd.Stderr = &buf
	cmd.Run()
	ms = time.Since(start).Milliseconds()
	out = buf.String()
	first := ""
	for _, l := range strings.Split(out, "\n") {
		l = strings.TrimSpace(l)
		if l == "" || strings.HasPrefix(l, "WARNING") || strings.HasPrefix(l, "(warning") {
			continue
		}
		first = l
		break
	}
	switch first {
	case "unsat", "sat", "unknown":
		return first, out, ms
	case "timeout":
		return "timeout", out, ms
	}
	if cctx.Err() != nil {
		return "timeout", out, ms
	}
	if strings.Contains(out, "timeout") || strings.Contains(out, "interrupted") {
		return "timeout", out, ms
	}
	return "error", out, ms
}

// Solve races the solvers on an SMT file. z3-new goes first with a short budget; if it does not
// give a definite answer all three are raced with the full budget.
func Solve(file string, timeoutS int, wantModel bool) SolveResult {
	ctx := context.Background()
	res := SolveResult{Status: "unknown"}
	quick := timeoutS
	if quick > 4 {
		quick = 4
	}
	st, out, ms := runSolver(ctx, solvers[0], file, quick)
	res.Tried = append(res.Tried, fmt.Sprintf("%s:%s:%dms", solvers[0].name, st, ms))
	if st == "unsat" || st == "sat" {
		res.Status, res.Solver, res.Ms, res.Output = st, solvers[0].name, ms, out
		if st == "sat" {
			res.Model = out
		}
		return res
	}
	if st == "error" {
		res.Output = out
	}
	// race
	type r struct {
		st, out, name string
		ms            int64
	}
	cctx, cancel := context.WithCancel(ctx)
	defer cancel()
	ch := make(chan r, len(solvers))
	var wg sync.WaitGroup
	for _, s := range solvers {
		s := s
		wg.Add(1)
		go func() {
			defer wg.Done()
			st, out, ms := runSolver(cctx, s, file, timeoutS)
			ch <- r{st, out, s.name, ms}
		}()
	}
	go func() { wg.Wait(); close(ch) }()
	var sat *r
	for x := range ch {
		x := x
		res.Tried = append(res.Tried, fmt.Sprintf("%s:%s:%dms", x.name, x.st, x.ms))
		if x.st == "unsat" {
			res.Status, res.Solver, res.Ms, res.Output = "unsat", x.name, x.ms, x.out
			cancel()
			return res
		}
		if x.st == "sat" && sat == nil {
			sat = &x
			// a sat answer from a z3 is definite for quantifier-free goals; accept it
			res.Status, res.Solver, res.Ms, res.Output, res.Model = "sat", x.name, x.ms, x.out, x.out
			cancel()
			return res
		}
		if x.st == "error" && res.Output == "" {
			res.Output = x.name + ": " + x.out
		}
		if x.st == "timeout" && res.Status == "unknown" {
			res.Status = "timeout"
		}
	}
	return res
}

// scratch directory management
var scratchDir string

var scratchOnce sync.Once

func Scratch() string {
	scratchOnce.Do(func() {
		base := os.Getenv("GOVC_SCRATCH")
		if base == "" {
			base = "/var/tmp"
		}
		// scratch directories of runs that were killed (older than six hours) are removed
		if ents, err := os.ReadDir(base); err == nil {
			for _, e := range ents {
				if info, err := e.Info(); err == nil && strings.HasPrefix(e.Name(), "govc-") && time.Since(info.ModTime()) > 6*time.Hour {
					os.RemoveAll(filepath.Join(base, e.Name()))
				}
			}
		}
		d, err := os.MkdirTemp(base, "govc-")
		if err != nil {
			panic(err)
		}
		scratchDir = d
	})
	return scratchDir
}

func CleanScratch() {
	if scratchDir != "" && os.Getenv("GOVC_KEEP") == "" {
		if err := os.RemoveAll(scratchDir); err != nil && os.Getenv("GOVC_DEBUG_SCRATCH") != "" {
			fmt.Fprintln(os.Stderr, "scratch cleanup:", err)
		}
	}
}

func writeSMT(name, content string) string {
	safe := strings.Map(func(r rune) rune {
		if r >= 'a' && r <= 'z' || r >= 'A' && r <= 'Z' || r >= '0' && r <= '9' || r == '_' || r == '-' || r == '.' {
			return r
		}
		return '_'
	}, name)
	if len(safe) > 150 {
		safe = safe[:150]
	}
	p := filepath.Join(Scratch(), safe+".smt2")
	for i := 1; ; i++ {
		if _, err := os.Stat(p); err != nil {
			break
		}
		p = filepath.Join(Scratch(), fmt.Sprintf("%s_%d.smt2", safe, i))
	}
	os.WriteFile(p, []byte(content), 0o644)
	return p
}
