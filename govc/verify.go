package main

import (
	"go/token"
	"fmt"
	"go/types"
	"sort"
	"strings"

	"golang.org/x/tools/go/ssa"
)

// VerifyFunction generates all obligations for one function under contract.
func (eng *Engine) VerifyFunction(fn *ssa.Function, con *Contract) (u *Unit) {
	pkgShort := strings.TrimPrefix(con.PkgPath, repoModule+"/")
	name := pkgShort + "." + con.Key()
	if con.Aspect > 0 {
		name += "~aspect"
	}
	u = NewUnit(eng, name, fn.Pkg.Pkg)
	u.forProps = con.For
	u.curFunc = name
	if o := con.Opts["opaque"]; o != "" {
		u.opaque = map[string]bool{}
		for _, f := range strings.Split(o, ",") {
			u.opaque[strings.TrimSpace(f)] = true
		}
	}
	x := &Executor{u: u}
	defer func() {
		if r := recover(); r != nil {
			if eng.debug {
				panic(r)
			}
			u.mute = 0
			u.addObl(&Obligation{Name: name + "#engine", Kind: "engine", Fail: fmt.Sprintf("engine panic: %v", r)})
		}
	}()
	if fn.Blocks == nil {
		u.addObl(&Obligation{Name: name + "#body", Kind: "engine", Fail: "function has no body"})
		return u
	}
	fr := &Frame{id: 0, fn: fn, vals: map[ssa.Value]Val{}, con: con, top: true, safe: con.Safe, noovf: con.NoOvf, prefix: name}
	if err := fr.analyse(); err != nil {
		u.addObl(&Obligation{Name: name + "#cfg", Kind: "engine", Fail: err.Error()})
		return u
	}
	if len(con.Params) != len(fn.Params) {
		u.addObl(&Obligation{Name: name + "#signature", Kind: "engine", Fail: fmt.Sprintf("contract header has %d parameters, function has %d", len(con.Params), len(fn.Params))})
		return u
	}
	for ord := range con.Loops {
		found := false
		for _, li := range fr.loops {
			if li.ord == ord {
				found = true
			}
		}
		if !found {
			u.addObl(&Obligation{Name: fmt.Sprintf("%s#loop%d", name, ord), Kind: "engine", Fail: fmt.Sprintf("contract names loop %d but the function has %d loops", ord, len(fr.loops))})
		}
	}
	st := newState()
	u.ensureAllocComp()
	u.replayFn, u.replayCon = fn, con
	vars := map[string]Val{}
	for i, p := range fn.Params {
		n := u.freshConst("p$"+con.Params[i], u.sortOf(p.Type()))
		if wf := u.wfValue(n, p.Type(), 0); wf != "true" {
			u.assume(wf)
		}
		v := Val{T: n, Ty: p.Type()}
		u.replayParams = append(u.replayParams, n)
		x.assumeAllocated(st, v)
		fr.params = append(fr.params, v)
		vars[con.Params[i]] = v
	}
	// a closure under contract: its captured variables are arbitrary allocated cells; the contract
	// may name them (their value at entry)
	for _, fv := range fn.FreeVars {
		n := u.freshConst("fv$"+fv.Name(), u.sortOf(fv.Type()))
		if wf := u.wfValue(n, fv.Type(), 0); wf != "true" {
			u.assume(wf)
		}
		bv := Val{T: n, Ty: fv.Type()}
		u.assume(fmt.Sprintf("(not (= %s 0))", n))
		x.assumeAllocated(st, bv)
		fr.bind = append(fr.bind, bv)
		if _, clash := vars[fv.Name()]; !clash {
			vars[fv.Name()] = x.loadAddr(st, x.deref(bv), "true")
		}
	}
	entry := st.clone()
	x.entry = entry
	fr.entrySt = entry
	x.frame = x.computeFrame(con, vars, entry, fn.Pkg.Pkg)
	x.topCon, x.topVars, x.topPkg, x.topName = con, vars, fn.Pkg.Pkg, name
	env := &Env{x: x, u: u, vars: vars, bound: map[string]Val{}, st: st, old: entry, pkg: fn.Pkg.Pkg}
	for _, ln := range con.Uses {
		if err := u.useLemma(ln, fn.Pkg.Pkg); err != nil {
			u.addObl(&Obligation{Name: name + "#uses:" + ln, Kind: "engine", Fail: err.Error()})
		}
	}
	for _, r := range con.Requires {
		t, err := env.Eval(r.E)
		if err != nil {
			u.addObl(&Obligation{Name: fmt.Sprintf("%s#requires%s", name, clauseLabel(r)), Kind: "engine", Fail: err.Error(), Clause: r.Src})
			continue
		}
		u.assume(t.T)
	}
	// vacuity guard: the preconditions are satisfiable
	u.addObl(&Obligation{Name: name + "#vacuity:requires", Kind: "vacuity", Expect: "sat", Clause: "requires are satisfiable"})
	ws := newWriteSet()
	x.wstack = append(x.wstack, ws)
	x.stack = append(x.stack, fn)
	x.execRegion(fr, nil, map[*ssa.BasicBlock][]incoming{fn.Blocks[0]: {{cond: "true", st: st}}})
	x.wstack = x.wstack[:0]
	// postconditions at each return
	if len(fr.exits) == 0 {
		u.notes["function never returns normally"] = true
	}
	var exitConds []string
	for ei, ex := range fr.exits {
		exitConds = append(exitConds, ex.cond)
		rv := map[string]Val{}
		for k, v := range vars {
			rv[k] = v
		}
		for i, rn := range con.Results {
			if i < len(ex.results) {
				rv[rn] = ex.results[i]
			}
		}
		if len(ex.results) == 1 {
			rv["result"] = ex.results[0]
		}
		env := &Env{x: x, u: u, vars: rv, bound: map[string]Val{}, st: ex.st, old: entry, pkg: fn.Pkg.Pkg, localsAfter: x.localsLookup(fr, ex.st)}
		suffix := ""
		if len(fr.exits) > 1 {
			suffix = fmt.Sprintf("@ret%d", ei+1)
		}
		for _, en := range con.Ensures {
			t, err := env.Eval(en.E)
			o := &Obligation{Name: fmt.Sprintf("%s#ensures%s%s", name, clauseLabel(en), suffix), Kind: "ensures", Clause: en.Src, For: en.For}
			if err != nil {
				o.Fail = err.Error()
			} else {
				o.Goal = fmt.Sprintf("(=> %s %s)", ex.cond, t.T)
				// cover condition (thorough tier): this exit is reachable with the clause's antecedent true
				o.Cover = ex.cond
				if b, ok := en.E.(*EBinary); ok && b.Op == "==>" {
					u.mute++
					if at, aerr := env.Eval(b.X); aerr == nil {
						o.Cover = fmt.Sprintf("(and %s %s)", ex.cond, at.T)
					}
					u.mute--
				}
			}
			u.addObl(o)
		}
		// lock balance (functions marked safe): what was acquired is released on this return path
		if con.Safe {
			if hn, ok := ex.st.heap[heldComp]; ok {
				if h0 := x.heapGet(entry, heldComp); h0 != hn {
					u.addObl(&Obligation{Name: fmt.Sprintf("%s#safe:lockbalance%s", name, suffix), Kind: "safe:lock", Clause: "every mutex acquired by the function is released on every return path", Goal: fmt.Sprintf("(=> %s (= %s %s))", ex.cond, hn, h0)})
				}
			}
		}
		// frame
		x.frameObligations(fr, con, ws, env, ex, entry, name+suffix)
	}
	// vacuity guard: every at-call / at-store clause matched at least one site of the function
	for k := range con.AtCall {
		if !u.atMatched["call:"+k] {
			u.addObl(&Obligation{Name: fmt.Sprintf("%s#atcall:%s:unmatched", name, k), Kind: "vacuity", Fail: "the at-call clause names " + k + ", which this function never calls (the clause would be vacuous)", Clause: "atcall " + k})
		}
	}
	for k := range con.AtStore {
		if !u.atMatched["store:"+k] {
			u.addObl(&Obligation{Name: fmt.Sprintf("%s#atstore:%s:unmatched", name, k), Kind: "vacuity", Fail: "the at-store clause names " + k + ", which this function never stores to (the clause would be vacuous)", Clause: "atstore " + k})
		}
	}
	// vacuity guard: some return is reachable
	if len(exitConds) > 0 {
		u.addObl(&Obligation{Name: name + "#vacuity:exit", Kind: "vacuity", Expect: "sat", Goal: "(or " + strings.Join(exitConds, " ") + " false)", Clause: "a return is reachable under the preconditions"})
	}
	return u
}

type locTarget struct {
	comp string
	ref  string // object ref (field), slice term (elem)
	kind string
	sl   string
}

type frameSpec struct {
	targets []locTarget
	whole   map[string]bool
	errs    []string
	modAll  bool
}

// computeFrame classifies the declared modifies targets of the top-level contract (evaluated
// in the entry state).
func (x *Executor) computeFrame(con *Contract, vars map[string]Val, entry *State, pkg *types.Package) *frameSpec {
	u := x.u
	fs := &frameSpec{whole: map[string]bool{}, modAll: con.ModAll}
	if con.ModAll {
		return fs
	}
	preEnv := &Env{x: x, u: u, vars: vars, bound: map[string]Val{}, st: entry, old: entry, pkg: pkg}
	for _, m := range con.Modifies {
		switch t := m.(type) {
		case *ESel:
			if ty := x.typeNameOf(preEnv, t.X); ty != nil {
				_, isS := ty.Underlying().(*types.Struct)
				_, isI := ty.Underlying().(*types.Interface)
				if isS || isI {
					for _, comp := range x.wholeComps(ty, t.Name) {
						fs.whole[comp] = true
					}
					continue
				}
			}
			if ref, sty, ok := x.lvalRef(preEnv, t.X); ok {
				if fieldType(u, sty, t.Name) == nil {
					fs.errs = append(fs.errs, "no field "+t.Name+" in "+sty.String())
					continue
				}
				for _, loc := range x.fieldLocs(sty, t.Name, ref) {
					fs.targets = append(fs.targets, locTarget{comp: loc.comp, ref: loc.ref, kind: "field"})
				}
				continue
			}
			pv, err := preEnv.Eval(t.X)
			if err != nil {
				fs.errs = append(fs.errs, err.Error())
				continue
			}
			if _, isIface := pv.Ty.Underlying().(*types.Interface); isIface {
				comp, _ := u.fieldComp(pv.Ty, t.Name)
				fs.targets = append(fs.targets, locTarget{comp: comp, ref: fmt.Sprintf("(i.val %s)", pv.T), kind: "field"})
				continue
			}
			pt, ok := pv.Ty.Underlying().(*types.Pointer)
			if !ok {
				fs.errs = append(fs.errs, "modifies base not a pointer: "+m.String())
				continue
			}
			fty := fieldType(u, pt.Elem(), t.Name)
			if fty != nil && isFlattened(fty) {
				sr := u.subRef(pt.Elem(), t.Name, pv.T)
				if at, isA := fty.Underlying().(*types.Array); isA {
					comp, _ := u.elemComp(at.Elem())
					fs.targets = append(fs.targets, locTarget{comp: comp, ref: sr, kind: "field"})
				} else {
					x.structTargets(fs, fty, sr)
				}
				continue
			}
			comp, _ := u.fieldComp(pt.Elem(), t.Name)
			fs.targets = append(fs.targets, locTarget{comp: comp, ref: pv.T, kind: "field"})
		case *EIndex:
			sv, err := preEnv.Eval(t.X)
			if err != nil {
				fs.errs = append(fs.errs, err.Error())
				continue
			}
			switch tt := sv.Ty.Underlying().(type) {
			case *types.Slice:
				comp, _ := u.elemComp(tt.Elem())
				fs.targets = append(fs.targets, locTarget{comp: comp, kind: "elems", sl: sv.T})
			case *types.Map:
				pres, val, ln := u.mapComps(tt)
				for _, c := range []string{pres, val, ln} {
					fs.targets = append(fs.targets, locTarget{comp: c, ref: sv.T, kind: "field"})
				}
			}
		case *EUnary:
			pv, err := preEnv.Eval(t.X)
			if err != nil {
				fs.errs = append(fs.errs, err.Error())
				continue
			}
			pt, _ := pv.Ty.Underlying().(*types.Pointer)
			if pt == nil {
				continue
			}
			if _, isS := pt.Elem().Underlying().(*types.Struct); isS {
				x.structTargets(fs, pt.Elem(), pv.T)
			} else if at, isA := pt.Elem().Underlying().(*types.Array); isA {
				comp, _ := u.elemComp(at.Elem())
				fs.targets = append(fs.targets, locTarget{comp: comp, ref: pv.T, kind: "field"})
			} else {
				comp, _ := u.cellComp(pt.Elem())
				fs.targets = append(fs.targets, locTarget{comp: comp, ref: pv.T, kind: "field"})
			}
		case *EIdent:
			if pkg != nil {
				if v, ok := pkg.Scope().Lookup(t.Name).(*types.Var); ok {
					comp, _ := u.globalComp(v.Pkg().Path(), v.Name(), v.Type())
					fs.whole[comp] = true
				}
			}
		case *ETypeExpr:
			if t.T.Kind == "slice" {
				if ty, err := u.resolveType(t.T.Elem, pkg); err == nil {
					comp, _ := u.elemComp(ty)
					fs.whole[comp] = true
				}
			}
		}
	}
	return fs
}

func (x *Executor) structTargets(fs *frameSpec, st types.Type, ref string) {
	u := x.u
	stt := st.Underlying().(*types.Struct)
	for i := 0; i < stt.NumFields(); i++ {
		ft := stt.Field(i).Type()
		if isFlattened(ft) {
			sr := u.subRef(st, stt.Field(i).Name(), ref)
			if at, isA := ft.Underlying().(*types.Array); isA {
				comp, _ := u.elemComp(at.Elem())
				fs.targets = append(fs.targets, locTarget{comp: comp, ref: sr, kind: "field"})
			} else {
				x.structTargets(fs, ft, sr)
			}
			continue
		}
		comp, _ := u.fieldComp(st, stt.Field(i).Name())
		fs.targets = append(fs.targets, locTarget{comp: comp, ref: ref, kind: "field"})
	}
	for _, g := range u.ghostFields(st) {
		comp, _ := u.fieldComp(st, g.name)
		fs.targets = append(fs.targets, locTarget{comp: comp, ref: ref, kind: "field"})
	}
}

// frameGoal: component c in state st equals its entry version on every location that was
// allocated at entry and is not a declared modifies target. ok=false: nothing to prove.
func (x *Executor) frameGoal(c string, st *State) (string, bool) {
	u := x.u
	fs := x.frame
	if fs == nil || fs.modAll || c == allocComp || fs.whole[c] {
		return "", false
	}
	now := x.heapGet(st, c)
	was := x.heapGet(x.entry, c)
	if now == was {
		return "", false
	}
	alloc0 := x.heapGet(x.entry, allocComp)
	kind := u.heapKinds[c]
	if kind == "global" {
		return fmt.Sprintf("(= %s %s)", now, was), true
	}
	var exc []string
	for _, t := range fs.targets {
		if t.comp != c {
			continue
		}
		if t.kind == "elems" && kind == "elem" {
			exc = append(exc, fmt.Sprintf("(and (= r (s.base %[1]s)) (<= (s.off %[1]s) k) (< k (+ (s.off %[1]s) (s.len %[1]s))))", t.sl))
		} else {
			exc = append(exc, fmt.Sprintf("(= r %s)", t.ref))
		}
	}
	excT := "false"
	if len(exc) > 0 {
		excT = "(or " + strings.Join(exc, " ") + ")"
	}
	if kind == "elem" {
		return fmt.Sprintf("(forall ((r Int) (k Int)) (! (=> (and (select %s (refroot r)) (not %s)) (= (select (select %s r) k) (select (select %s r) k))) :pattern ((select (select %s r) k))))", alloc0, excT, now, was, now), true
	}
	return fmt.Sprintf("(forall ((r Int)) (! (=> (and (select %s (refroot r)) (not %s)) (= (select %s r) (select %s r))) :pattern ((select %s r))))", alloc0, excT, now, was, now), true
}

// frameObligations: everything the function wrote must be covered by its modifies clause.
func (x *Executor) frameObligations(fr *Frame, con *Contract, ws *WriteSet, env *Env, ex exitPoint, entry *State, name string) {
	u := x.u
	if con.ModAll {
		return
	}
	if ws.all {
		u.addObl(&Obligation{Name: name + "#frame", Kind: "frame", Fail: "function calls code with unknown effects (havoc) but declares a modifies clause; give the callee a contract", Clause: "modifies"})
		return
	}
	for _, e := range x.frame.errs {
		u.addObl(&Obligation{Name: name + "#frame", Kind: "frame", Fail: e})
	}
	var comps []string
	for c := range ws.comps {
		comps = append(comps, c)
	}
	sort.Strings(comps)
	for _, c := range comps {
		goal, ok := x.frameGoal(c, ex.st)
		if !ok {
			continue
		}
		u.addObl(&Obligation{Name: name + "#frame:" + c, Kind: "frame", Clause: "only declared locations of " + c + " are modified", Goal: fmt.Sprintf("(=> %s %s)", ex.cond, goal)})
	}
}

func (u *Unit) equalTermsSort(a, b string) string { return fmt.Sprintf("(= %s %s)", a, b) }

// evalLoopClause evaluates an invariant at the loop header in state st.
func (x *Executor) evalLoopClause(fr *Frame, li *loopInfo, st *State, e Expr) (string, error) {
	return x.evalLoopClauseAt(fr, li, st, e, false)
}

// evalLoopClauseBack evaluates an invariant at a back edge: `iter` counts completed iterations.
func (x *Executor) evalLoopClauseBack(fr *Frame, li *loopInfo, st *State, e Expr) (string, error) {
	return x.evalLoopClauseAt(fr, li, st, e, true)
}

func (x *Executor) evalLoopClauseAt(fr *Frame, li *loopInfo, st *State, e Expr, back bool) (string, error) {
	env := x.loopEnv(fr, li, st)
	if li.entrySt != nil {
		env.preEnv = x.loopEnv(fr, li, li.entrySt)
	}
	v, err := env.Eval(e)
	if err != nil {
		return "", err
	}
	return v.T, nil
}

func (x *Executor) loopEnv(fr *Frame, li *loopInfo, st *State) *Env {
	u := x.u
	vars := map[string]Val{}
	if fr.con != nil {
		for i, n := range fr.con.Params {
			if i < len(fr.params) {
				vars[n] = fr.params[i]
			}
		}
	}
	// iter: the hidden range counter is incremented at the top of the header; at header entry
	// (and on back edges) it holds completed-1.
	if ri := rangeIndexAlloc(li); ri != nil {
		if v, ok := st.locals[localKey{ri, fr.id}]; ok {
			vars["iter"] = Val{T: fmt.Sprintf("(+ %s 1)", v.T), Ty: mathInt}
		}
	}
	if rng := mapRangeOf(li); rng != nil {
		if vis, ok := st.ghost[fmt.Sprintf("visited$%d$%s", fr.id, rng.Name())]; ok {
			mt := rng.X.Type().Underlying().(*types.Map)
			vars["visited"] = Val{T: vis, Ty: u.eng.ghostMapType(mt.Key(), types.Typ[types.Bool])}
		}
	}
	locals := x.localsLookupAt(fr, st, loopPos(li.header))
	env := &Env{x: x, u: u, vars: vars, bound: map[string]Val{}, st: st, old: fr.entrySt, pkg: fr.fn.Pkg.Pkg, locals: locals}
	if env.old == nil {
		env.old = x.entry
	}
	return env
}

// localsLookup: resolve a source-level local variable name of frame fr in state st.
func (x *Executor) localsLookup(fr *Frame, st *State) func(name string) (Val, bool) {
	return x.localsLookupAt(fr, st, token.NoPos)
}

// localsLookupAt resolves a name lexically: of several locals with that name the one declared
// last before pos is meant (the innermost / most recent declaration in scope).
func (x *Executor) localsLookupAt(fr *Frame, st *State, pos token.Pos) func(name string) (Val, bool) {
	u := x.u
	return func(name string) (Val, bool) {
		var found *Val
		n := 0
		var keys []localKey
		for k := range st.locals {
			if k.frame == fr.id && k.alloc.Comment == name {
				keys = append(keys, k)
			}
		}
		sort.Slice(keys, func(i, j int) bool { return keys[i].alloc.Pos() < keys[j].alloc.Pos() })
		for _, k := range keys {
			v := st.locals[k]
			if found == nil || (pos != token.NoPos && k.alloc.Pos() < pos) {
				vv := v
				found = &vv
			}
			n++
		}
		if found == nil {
			// heap-allocated (escaping) local variables: look through fr.vals
			for val, v := range fr.vals {
				if a, ok := val.(*ssa.Alloc); ok && a.Heap && a.Comment == name {
					et := a.Type().(*types.Pointer).Elem()
					env := &Env{x: x, u: u, st: st, bound: map[string]Val{}}
					lv, err := env.derefVal(Val{T: v.T, Ty: a.Type()})
					if err == nil {
						lv.Ty = et
						return lv, true
					}
				}
			}
			// declared somewhere in the function but not (yet) live here: an arbitrary value
			for _, b := range fr.fn.Blocks {
				for _, in := range b.Instrs {
					if a, ok := in.(*ssa.Alloc); ok && a.Comment == name {
						et := a.Type().(*types.Pointer).Elem()
						n := u.freshConst("notlive$"+name, u.sortOf(et))
						return Val{T: n, Ty: et}, true
					}
				}
			}
			return Val{}, false
		}
		return *found, true
	}
}

func rangeIndexAlloc(li *loopInfo) *ssa.Alloc {
	for _, in := range li.header.Instrs {
		if s, ok := in.(*ssa.Store); ok {
			if a, ok := s.Addr.(*ssa.Alloc); ok && a.Comment == "rangeindex" {
				return a
			}
		}
	}
	return nil
}

// useLemma adds a proved (or trusted) lemma as a quantified axiom.
func (u *Unit) useLemma(name string, pkg *types.Package) error {
	if u.lemmaAx[name] {
		return nil
	}
	lm := u.eng.specs.lookupLemma(pkg, name)
	if lm == nil {
		return fmt.Errorf("unknown lemma %s", name)
	}
	u.lemmaAx[name] = true
	lpkg := u.eng.typesPkg(lm.PkgPath)
	if lpkg == nil {
		lpkg = pkg
	}
	x := &Executor{u: u}
	vars := map[string]Val{}
	var binders []string
	var wfReqs []string
	for _, p := range lm.Params {
		ty, err := u.resolveType(p.Type, lpkg)
		if err != nil {
			return err
		}
		n := "l$" + p.Name
		vars[p.Name] = Val{T: n, Ty: ty}
		binders = append(binders, fmt.Sprintf("(%s %s)", n, u.sortOf(ty)))
		if wf := u.wfValue(n, ty, 0); wf != "true" && !lm.Trusted {
			wfReqs = append(wfReqs, wf)
		}
	}
	if lemmaMentionsOld(lm) {
		// a two-state (frame) lemma is not turned into one axiom quantified over heaps (no usable
		// trigger); it is instantiated for the heap before / after every call instead
		u.twoState = append(u.twoState, &twoStateLemma{lm: lm, pkg: lpkg})
		if lm.Trusted {
			u.trusted["axiom "+name] = true
		}
		return nil
	}
	hs, ohs := map[string]string{}, map[string]string{}
	env := &Env{x: x, u: u, vars: vars, bound: map[string]Val{}, pkg: lpkg, heapSyms: hs, oldHeapSyms: ohs}
	var reqs, enss []string
	reqs = append(reqs, wfReqs...)
	for _, r := range lm.Requires {
		t, err := env.Eval(r.E)
		if err != nil {
			return fmt.Errorf("lemma %s: %v", name, err)
		}
		reqs = append(reqs, t.T)
	}
	for _, r := range lm.Ensures {
		t, err := env.Eval(r.E)
		if err != nil {
			return fmt.Errorf("lemma %s: %v", name, err)
		}
		enss = append(enss, t.T)
	}
	var pats []string
	for _, p := range lm.Pattern {
		t, err := env.Eval(p)
		if err != nil {
			return fmt.Errorf("lemma %s pattern: %v", name, err)
		}
		pats = append(pats, t.T)
	}
	for _, m := range []map[string]string{hs, ohs} {
		var cs []string
		for c := range m {
			cs = append(cs, c)
		}
		sort.Strings(cs)
		for _, c := range cs {
			binders = append(binders, fmt.Sprintf("(%s %s)", m[c], u.heapSorts[c]))
		}
	}
	body := fmt.Sprintf("(=> (and true %s) (and true %s))", strings.Join(reqs, " "), strings.Join(enss, " "))
	if len(pats) > 0 {
		body = fmt.Sprintf("(! %s :pattern (%s))", body, strings.Join(pats, " "))
	}
	ax := body
	if len(binders) > 0 {
		ax = fmt.Sprintf("(forall (%s) %s)", strings.Join(binders, " "), body)
	}
	// the axiom must come after spec function definitions: put it in the script
	u.emit("(assert " + ax + ")")
	if lm.Trusted {
		u.trusted["axiom "+name] = true
	}
	return nil
}

func (ss *SpecSet) lookupLemma(cur *types.Package, name string) *Lemma {
	if cur != nil {
		if m := ss.Lemmas[cur.Path()]; m != nil {
			if l := m[name]; l != nil {
				return l
			}
		}
	}
	for _, m := range ss.Lemmas {
		if l := m[name]; l != nil {
			return l
		}
	}
	return nil
}

// VerifyLemma generates the proof obligations of a lemma (base+step when by induction).
func (eng *Engine) VerifyLemma(lm *Lemma) (u *Unit) {
	pkgShort := strings.TrimPrefix(lm.PkgPath, repoModule+"/")
	name := pkgShort + "#lemma:" + lm.Name
	pkg := eng.typesPkg(lm.PkgPath)
	u = NewUnit(eng, name, pkg)
	u.forProps = lm.For
	u.curFunc = name
	defer func() {
		if r := recover(); r != nil {
			if eng.debug {
				panic(r)
			}
			u.addObl(&Obligation{Name: name + "#engine", Kind: "engine", Fail: fmt.Sprintf("engine panic: %v", r)})
		}
	}()
	x := &Executor{u: u}
	for _, ln := range lm.Uses {
		if err := u.useLemma(ln, pkg); err != nil {
			u.addObl(&Obligation{Name: name + "#uses:" + ln, Kind: "engine", Fail: err.Error()})
		}
	}
	vars := map[string]Val{}
	type pinfo struct {
		name string
		ty   types.Type
	}
	var ps []pinfo
	for _, p := range lm.Params {
		ty, err := u.resolveType(p.Type, pkg)
		if err != nil {
			u.addObl(&Obligation{Name: name, Kind: "engine", Fail: err.Error()})
			return u
		}
		n := q("lp$" + p.Name)
		u.declare(n, u.sortOf(ty))
		if wf := u.wfValue(n, ty, 0); wf != "true" {
			u.assume(wf)
		}
		vars[p.Name] = Val{T: n, Ty: ty}
		ps = append(ps, pinfo{p.Name, ty})
	}
	hs, ohs := map[string]string{}, map[string]string{}
	env := &Env{x: x, u: u, vars: vars, bound: map[string]Val{}, pkg: pkg, heapSyms: hs, oldHeapSyms: ohs}
	evalAll := func(env *Env, cls []*Clause) ([]string, error) {
		var out []string
		for _, c := range cls {
			t, err := env.Eval(c.E)
			if err != nil {
				return nil, err
			}
			out = append(out, t.T)
		}
		return out, nil
	}
	reqs, err := evalAll(env, lm.Requires)
	if err != nil {
		u.addObl(&Obligation{Name: name, Kind: "engine", Fail: err.Error()})
		return u
	}
	enss, err := evalAll(env, lm.Ensures)
	if err != nil {
		u.addObl(&Obligation{Name: name, Kind: "engine", Fail: err.Error()})
		return u
	}
	// induction hypothesis
	var ih string
	if lm.Induction != "" {
		ivar, ok := vars[lm.Induction]
		if !ok {
			u.addObl(&Obligation{Name: name, Kind: "engine", Fail: "induction variable not a parameter"})
			return u
		}
		vars2 := map[string]Val{}
		var binders []string
		for _, p := range ps {
			if p.name == lm.Induction {
				vars2[p.name] = Val{T: "ih$m", Ty: p.ty}
				binders = append(binders, "(ih$m Int)")
				continue
			}
			n := "ih$" + p.name
			vars2[p.name] = Val{T: n, Ty: p.ty}
			binders = append(binders, fmt.Sprintf("(%s %s)", n, u.sortOf(p.ty)))
		}
		env2 := &Env{x: x, u: u, vars: vars2, bound: map[string]Val{}, pkg: pkg, heapSyms: hs, oldHeapSyms: ohs}
		r2, err1 := evalAll(env2, lm.Requires)
		e2, err2 := evalAll(env2, lm.Ensures)
		if err1 != nil || err2 != nil {
			u.addObl(&Obligation{Name: name, Kind: "engine", Fail: fmt.Sprintf("%v %v", err1, err2)})
			return u
		}
		ih = fmt.Sprintf("(forall (%s) (=> (and (<= 0 ih$m) (< ih$m %s) %s) (and true %s)))", strings.Join(binders, " "), ivar.T, strings.Join(r2, " "), strings.Join(e2, " "))
	}
	// heap symbols become constants
	for _, m := range []map[string]string{hs, ohs} {
		for c, s := range m {
			u.declare(s, u.heapSorts[c])
		}
	}
	for _, r := range reqs {
		u.assume(r)
	}
	if ih != "" {
		u.assume(ih)
	}
	u.addObl(&Obligation{Name: name + "#vacuity:requires", Kind: "vacuity", Expect: "sat", Clause: "lemma hypotheses are satisfiable"})
	for i, en := range enss {
		u.addObl(&Obligation{Name: fmt.Sprintf("%s:ensures%s", name, clauseLabel(lm.Ensures[i])), Kind: "lemma", Clause: lm.Ensures[i].Src, Goal: en, For: lm.For})
	}
	return u
}

type twoStateLemma struct {
	lm  *Lemma
	pkg *types.Package
}

// exprMentionsFn: the expression applies one of the named builtins somewhere.
func exprMentionsFn(e Expr, names ...string) bool {
	found := false
	var walk func(e Expr)
	walk = func(e Expr) {
		switch t := e.(type) {
		case *ECall:
			if id, ok := t.Fun.(*EIdent); ok {
				for _, n := range names {
					if id.Name == n {
						found = true
					}
				}
			}
			walk(t.Fun)
			for _, a := range t.Args {
				walk(a)
			}
		case *EUnary:
			walk(t.X)
		case *EBinary:
			walk(t.X)
			walk(t.Y)
		case *ESel:
			walk(t.X)
		case *EIndex:
			walk(t.X)
			walk(t.I)
		case *EQuant:
			walk(t.Body)
		}
	}
	walk(e)
	return found
}

func exprMentionsOld(e Expr) bool {
	found := false
	var walk func(e Expr)
	walk = func(e Expr) {
		switch t := e.(type) {
		case *ECall:
			if id, ok := t.Fun.(*EIdent); ok && id.Name == "old" {
				found = true
			}
			walk(t.Fun)
			for _, a := range t.Args {
				walk(a)
			}
		case *EUnary:
			walk(t.X)
		case *EBinary:
			walk(t.X)
			walk(t.Y)
		case *ESel:
			walk(t.X)
		case *EIndex:
			walk(t.X)
			walk(t.I)
		case *ESlice:
			walk(t.X)
			if t.Lo != nil {
				walk(t.Lo)
			}
			if t.Hi != nil {
				walk(t.Hi)
			}
		case *EQuant:
			walk(t.Body)
		}
	}
	walk(e)
	return found
}

func lemmaMentionsOld(lm *Lemma) bool {
	for _, c := range lm.Requires {
		if exprMentionsOld(c.E) {
			return true
		}
	}
	for _, c := range lm.Ensures {
		if exprMentionsOld(c.E) {
			return true
		}
	}
	return false
}

// applyTwoStateLemmas: after a call that changed the heap, every frame lemma in use is assumed for
// (old = heap before the call, current = heap after it), quantified over its parameters only.
func (x *Executor) applyTwoStateLemmas(before, after *State) {
	u := x.u
	if len(u.twoState) == 0 || u.mute > 0 {
		return
	}
	changed := len(before.heap) != len(after.heap)
	if !changed {
		for c, v := range after.heap {
			if before.heap[c] != v {
				changed = true
				break
			}
		}
	}
	if !changed {
		return
	}
	for _, ts := range u.twoState {
		lm := ts.lm
		vars := map[string]Val{}
		var binders, reqs, enss, pats []string
		bad := false
		for _, p := range lm.Params {
			ty, err := u.resolveType(p.Type, ts.pkg)
			if err != nil {
				bad = true
				break
			}
			n := "l$" + p.Name
			vars[p.Name] = Val{T: n, Ty: ty}
			binders = append(binders, fmt.Sprintf("(%s %s)", n, u.sortOf(ty)))
			if wf := u.wfValue(n, ty, 0); wf != "true" && !lm.Trusted {
				reqs = append(reqs, wf)
			}
		}
		if bad {
			continue
		}
		env := &Env{x: x, u: u, vars: vars, bound: map[string]Val{}, pkg: ts.pkg, st: after, old: before}
		for _, r := range lm.Requires {
			t, err := env.Eval(r.E)
			if err != nil {
				bad = true
				break
			}
			reqs = append(reqs, t.T)
		}
		for _, r := range lm.Ensures {
			t, err := env.Eval(r.E)
			if err != nil {
				bad = true
				break
			}
			enss = append(enss, t.T)
		}
		for _, p := range lm.Pattern {
			if exprMentionsOld(p) {
				continue
			}
			t, err := env.Eval(p)
			if err != nil {
				bad = true
				break
			}
			pats = append(pats, t.T)
		}
		if bad {
			u.unsupported("two-state lemma " + lm.Name + " could not be instantiated")
			continue
		}
		body := fmt.Sprintf("(=> (and true %s) (and true %s))", strings.Join(reqs, " "), strings.Join(enss, " "))
		if len(pats) > 0 {
			body = fmt.Sprintf("(! %s :pattern (%s))", body, strings.Join(pats, " "))
		}
		if len(binders) > 0 {
			body = fmt.Sprintf("(forall (%s) %s)", strings.Join(binders, " "), body)
		}
		u.emit("(assert " + body + ")")
	}
}
