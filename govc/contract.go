package main

// Parsing of contract files: //@ lines in <pkg>/zz_contracts_verif.go (tag verif) and /verif/specs/*.spec.

import (
	"fmt"
	"go/ast"
	goparser "go/parser"
	"go/token"
	"os"
	"path/filepath"
	"sort"
	"strconv"
	"strings"
)

type Clause struct {
	E    Expr
	Src  string
	For  []string
	Kind string // requires, ensures, invariant, ...
	Idx  int    // ordinal among clauses of the same kind
	Name string // optional stable label
}

type LoopSpec struct {
	Ordinal    int
	Invariants []*Clause
	Decreases  Expr
}

type Contract struct {
	PkgPath  string // import path the function lives in
	File     string
	Line     int
	Header   string
	Recv     string // receiver base type name ("" for functions)
	RecvQual string // package alias when the receiver is an interface of another package (pkg.Iface)
	RecvPtr  bool
	Name     string
	Params   []string // own names, receiver first when present
	Results  []string
	Requires []*Clause
	Ensures  []*Clause
	Asserts  []*Clause
	Modifies []Expr
	ModAll   bool
	ModSet   bool // an explicit modifies clause (possibly "nothing") is present
	Loops    map[int]*LoopSpec
	Safe     bool
	Trusted  bool
	Inline   bool
	NoOvf    bool
	Mode     string
	For      []string
	Uses     []string // lemma names made available as axioms
	Opts     map[string]string
	Used     bool
	Aspect   int // > 0: an aspect contract (verified, never applied at call sites)
	// AtCall: obligations at every call of the named callee inside this function, stated over
	// the callee's own parameter names
	AtCall map[string][]*Clause
	// AllocBound: every make([]T, n) executed by the function (inlined callees included) has n <= bound
	AllocBound *Clause
	// AtStore: obligations at every store to the named struct field ("Type.field") inside this
	// function; `old` and `new` denote the value before and the value stored
	AtStore map[string][]*Clause
}

func (c *Contract) Key() string {
	if c.Recv != "" {
		return c.Recv + "." + c.Name
	}
	return c.Name
}

type SpecFunc struct {
	PkgPath string
	Name    string
	Params  []QVar
	Result  *TypeExpr
	Body    Expr // nil: uninterpreted
	Src     string
	File    string
	Line    int
}

type Lemma struct {
	PkgPath   string
	Name      string
	Params    []QVar
	Requires  []*Clause
	Ensures   []*Clause
	Induction string // parameter name, "" if none
	Pattern   []Expr
	For       []string
	Uses      []string
	Trusted   bool // axiom: assumed, listed in trusted base
	File      string
	Line      int
}

type Census struct {
	PkgPath string
	Callee  string   // e.g. "PrivValidator.SignVote" or "pkg.Func"
	Allowed []string // function keys allowed to call it
	For     []string
	Src     string
}

type Guard struct {
	PkgPath string
	Type    string
	Field   string
	Cond    *Clause
	For     []string
}

type ghostQual struct {
	DeclPkg, Alias, Type, Field string
	Ty                          *TypeExpr
}

type SpecSet struct {
	Aspects        []*Contract // verified-only additional contracts
	GhostQualified []ghostQual
	GhostDeclPkg   map[string]map[string]string // type key -> field -> package whose imports resolve the field's type
	Contracts map[string]map[string]*Contract // pkgpath -> key -> contract
	Funcs     map[string]map[string]*SpecFunc // pkgpath -> name
	Lemmas    map[string]map[string]*Lemma
	Census    []*Census
	Guards    []*Guard
	GhostFlds map[string]map[string]*TypeExpr // "pkgpath.Type" -> field -> type
	Files     []string
}

func NewSpecSet() *SpecSet {
	return &SpecSet{
		Contracts: map[string]map[string]*Contract{},
		Funcs:     map[string]map[string]*SpecFunc{},
		Lemmas:    map[string]map[string]*Lemma{},
		GhostFlds: map[string]map[string]*TypeExpr{},
	}
}

type rawLine struct {
	text string
	line int
}

// extractLines returns the //@ lines of a file with "//@" stripped.
func extractLines(path string) ([]rawLine, string, error) {
	b, err := os.ReadFile(path)
	if err != nil {
		return nil, "", err
	}
	var out []rawLine
	pkgName := ""
	for i, l := range strings.Split(string(b), "\n") {
		t := strings.TrimSpace(l)
		if strings.HasPrefix(t, "package ") && pkgName == "" {
			pkgName = strings.TrimSpace(strings.TrimPrefix(t, "package "))
		}
		if !strings.HasPrefix(t, "//@") {
			continue
		}
		t = strings.TrimPrefix(t, "//@")
		out = append(out, rawLine{t, i + 1})
	}
	return out, pkgName, nil
}

var declKeywords = []string{"func", "spec", "lemma", "axiom", "census", "guard", "ghost", "package", "trusted", "aspect"}
var clauseKeywords = []string{"allocbound", "atstore", "atcall", "requires", "ensures", "modifies", "invariant", "decreases", "loop", "safe", "trusted", "inline", "for", "nooverflow", "mode", "uses", "induction", "pattern", "assert", "opt"}

func firstWord(s string) (string, string) {
	s = strings.TrimSpace(s)
	i := strings.IndexAny(s, " \t(:")
	if i < 0 {
		return s, ""
	}
	return s[:i], strings.TrimSpace(s[i:])
}

func splitFor(s string) (string, []string) {
	// trailing  "//@ for C02 C13"  or "// ..." comment
	var forList []string
	if i := strings.Index(s, "//@ for "); i >= 0 {
		forList = strings.Fields(strings.ReplaceAll(s[i+8:], ",", " "))
		s = s[:i]
	}
	if i := strings.Index(s, " // "); i >= 0 {
		s = s[:i]
	}
	return strings.TrimSpace(s), forList
}

// LoadContractFile parses one contract file. pkgPath is the import path for /repo files; for
// .spec files it is set by "package <path>" lines.
func (ss *SpecSet) LoadContractFile(path, pkgPath string) error {
	lines, _, err := extractLines(path)
	if err != nil {
		return err
	}
	ss.Files = append(ss.Files, path)
	// group into declarations
	type decl struct {
		head  rawLine
		lines []rawLine
	}
	var decls []*decl
	for _, l := range lines {
		w, _ := firstWord(l.text)
		isDecl := false
		// a declaration keyword at indentation <= 1 space
		indent := len(l.text) - len(strings.TrimLeft(l.text, " \t"))
		if indent <= 1 {
			for _, k := range declKeywords {
				if w == k {
					isDecl = true
				}
			}
		}
		if isDecl {
			decls = append(decls, &decl{head: l})
		} else if len(decls) > 0 {
			if strings.TrimSpace(l.text) == "" {
				continue
			}
			decls[len(decls)-1].lines = append(decls[len(decls)-1].lines, l)
		} else if strings.TrimSpace(l.text) != "" {
			return fmt.Errorf("%s:%d: clause outside a declaration: %s", path, l.line, l.text)
		}
	}
	for _, d := range decls {
		w, rest := firstWord(d.head.text)
		// aspect func ...: an additional contract of a function that is verified against its body but
		// never used at call sites (callers see the function's primary contract)
		aspect := false
		if w == "aspect" {
			aspect = true
			d.head.text = strings.TrimSpace(strings.TrimPrefix(strings.TrimSpace(d.head.text), "aspect"))
			w, rest = firstWord(d.head.text)
			rest = strings.TrimSpace(rest)
		}
		trusted := false
		if w == "trusted" {
			trusted = true
			d.head.text = strings.TrimSpace(strings.TrimPrefix(strings.TrimSpace(d.head.text), "trusted"))
			w, rest = firstWord(d.head.text)
			rest = strings.TrimSpace(rest)
		}
		// merge continuation lines: a line not starting with a clause keyword continues the previous
		var clauses []rawLine
		for _, l := range d.lines {
			cw, _ := firstWord(l.text)
			isClause := false
			for _, k := range clauseKeywords {
				if cw == k {
					isClause = true
				}
			}
			if isClause || len(clauses) == 0 {
				clauses = append(clauses, rawLine{strings.TrimSpace(l.text), l.line})
			} else {
				body, _ := splitFor(l.text)
				prev := &clauses[len(clauses)-1]
				pb, pf := splitFor(prev.text)
				prev.text = pb + " " + body
				if len(pf) > 0 {
					prev.text += " //@ for " + strings.Join(pf, " ")
				}
			}
		}
		switch w {
		case "package":
			pkgPath = strings.TrimSpace(rest)
		case "func":
			c, err := parseFuncContract(pkgPath, path, d.head, clauses)
			if err != nil {
				return err
			}
			c.Trusted = c.Trusted || trusted
			if aspect {
				if c.Trusted {
					return fmt.Errorf("%s:%d: an aspect contract cannot be trusted", path, d.head.line)
				}
				c.Aspect = len(ss.Aspects) + 1
				ss.Aspects = append(ss.Aspects, c)
				continue
			}
			if ss.Contracts[pkgPath] == nil {
				ss.Contracts[pkgPath] = map[string]*Contract{}
			}
			if _, dup := ss.Contracts[pkgPath][c.Key()]; dup {
				return fmt.Errorf("%s:%d: duplicate contract for %s", path, d.head.line, c.Key())
			}
			ss.Contracts[pkgPath][c.Key()] = c
		case "spec":
			f, err := parseSpecFunc(pkgPath, path, d.head, clauses)
			if err != nil {
				return err
			}
			if ss.Funcs[pkgPath] == nil {
				ss.Funcs[pkgPath] = map[string]*SpecFunc{}
			}
			ss.Funcs[pkgPath][f.Name] = f
		case "lemma", "axiom":
			lm, err := parseLemma(pkgPath, path, d.head, clauses)
			if err != nil {
				return err
			}
			lm.Trusted = w == "axiom"
			if ss.Lemmas[pkgPath] == nil {
				ss.Lemmas[pkgPath] = map[string]*Lemma{}
			}
			ss.Lemmas[pkgPath][lm.Name] = lm
		case "census":
			// census call X.m only from f, g
			body, forList := splitFor(rest)
			parts := strings.SplitN(body, " only from ", 2)
			if len(parts) != 2 {
				return fmt.Errorf("%s:%d: bad census", path, d.head.line)
			}
			callee := strings.TrimSpace(strings.TrimPrefix(strings.TrimSpace(parts[0]), "call"))
			var allowed []string
			for _, a := range strings.Split(parts[1], ",") {
				allowed = append(allowed, strings.TrimSpace(a))
			}
			for _, cl := range clauses {
				cw, cr := firstWord(cl.text)
				if cw == "for" {
					forList = append(forList, strings.Fields(cr)...)
				}
			}
			ss.Census = append(ss.Census, &Census{pkgPath, callee, allowed, forList, body})
		case "guard":
			// guard write T.f: expr(old, new)
			body, forList := splitFor(rest)
			body = strings.TrimSpace(strings.TrimPrefix(body, "write"))
			i := strings.Index(body, ":")
			if i < 0 {
				return fmt.Errorf("%s:%d: bad guard", path, d.head.line)
			}
			tf := strings.Split(strings.TrimSpace(body[:i]), ".")
			e, err := ParseExpr(body[i+1:])
			if err != nil {
				return fmt.Errorf("%s:%d: %v", path, d.head.line, err)
			}
			for _, cl := range clauses {
				cw, cr := firstWord(cl.text)
				if cw == "for" {
					forList = append(forList, strings.Fields(cr)...)
				}
			}
			ss.Guards = append(ss.Guards, &Guard{pkgPath, tf[0], tf[1], &Clause{E: e, Src: body[i+1:], For: forList, Kind: "guard"}, forList})
		case "ghost":
			// ghost field T.f type
			r := strings.TrimSpace(strings.TrimPrefix(rest, "field"))
			parts := strings.Fields(r)
			if len(parts) < 2 {
				return fmt.Errorf("%s:%d: bad ghost field", path, d.head.line)
			}
			tf := strings.Split(parts[0], ".")
			toks, err := lex(strings.Join(parts[1:], " "))
			if err != nil {
				return err
			}
			p := &parser{toks: toks}
			ty := p.parseType()
			if len(tf) == 3 {
				// alias.Type.field: ghost state attached to a type of an imported package; the
				// alias is resolved once the packages are loaded
				ss.GhostQualified = append(ss.GhostQualified, ghostQual{DeclPkg: pkgPath, Alias: tf[0], Type: tf[1], Field: tf[2], Ty: ty})
				continue
			}
			k := pkgPath + "." + tf[0]
			if ss.GhostFlds[k] == nil {
				ss.GhostFlds[k] = map[string]*TypeExpr{}
			}
			ss.GhostFlds[k][tf[1]] = ty
		}
	}
	return nil
}

func parseClauseExpr(path string, l rawLine, kind, text string, idx int) (*Clause, error) {
	body, forList := splitFor(text)
	name := ""
	// optional label:  [name] expr
	if strings.HasPrefix(body, "[") {
		if j := strings.Index(body, "]"); j > 0 && !strings.ContainsAny(body[1:j], " :") {
			name = body[1:j]
			body = strings.TrimSpace(body[j+1:])
		}
	}
	e, err := ParseExpr(body)
	if err != nil {
		return nil, fmt.Errorf("%s:%d: %v", path, l.line, err)
	}
	return &Clause{E: e, Src: body, For: forList, Kind: kind, Idx: idx, Name: name}, nil
}

func parseFuncContract(pkgPath, path string, head rawLine, clauses []rawLine) (*Contract, error) {
	hdr, forList := splitFor(strings.TrimSpace(head.text))
	c := &Contract{PkgPath: pkgPath, File: path, Line: head.line, Header: hdr, Loops: map[int]*LoopSpec{}, For: forList, Opts: map[string]string{}}
	fset := token.NewFileSet()
	// parent$N names an anonymous function; '$' is not a Go identifier character
	f, err := goparser.ParseFile(fset, "", "package p\n"+strings.ReplaceAll(hdr, "$", "ǁ")+"\n", 0)
	if err != nil {
		return nil, fmt.Errorf("%s:%d: cannot parse header %q: %v", path, head.line, hdr, err)
	}
	fd := f.Decls[0].(*ast.FuncDecl)
	c.Name = strings.ReplaceAll(fd.Name.Name, "ǁ", "$")
	if fd.Recv != nil && len(fd.Recv.List) > 0 {
		r := fd.Recv.List[0]
		rn := "_recv"
		if len(r.Names) > 0 {
			rn = r.Names[0].Name
		}
		c.Params = append(c.Params, rn)
		t := r.Type
		if st, ok := t.(*ast.StarExpr); ok {
			c.RecvPtr = true
			t = st.X
		}
		switch tt := t.(type) {
		case *ast.Ident:
			c.Recv = tt.Name
		case *ast.SelectorExpr:
			// pkgalias.Interface: a contract for an interface of another package, stated (and used)
			// in this package only, over this package's types
			c.Recv = tt.Sel.Name
			if id, ok := tt.X.(*ast.Ident); ok {
				c.RecvQual = id.Name
			}
		case *ast.IndexExpr:
			if id, ok := tt.X.(*ast.Ident); ok {
				c.Recv = id.Name
			}
		}
	}
	n := 0
	for _, p := range fd.Type.Params.List {
		if len(p.Names) == 0 {
			c.Params = append(c.Params, fmt.Sprintf("_p%d", n))
			n++
		}
		for _, nm := range p.Names {
			c.Params = append(c.Params, nm.Name)
			n++
		}
	}
	if fd.Type.Results != nil {
		n = 0
		for _, p := range fd.Type.Results.List {
			if len(p.Names) == 0 {
				if n == 0 {
					c.Results = append(c.Results, "result")
				} else {
					c.Results = append(c.Results, fmt.Sprintf("result%d", n))
				}
				n++
			}
			for _, nm := range p.Names {
				c.Results = append(c.Results, nm.Name)
				n++
			}
		}
	}
	var curLoop *LoopSpec
	for _, l := range clauses {
		w, rest := firstWord(l.text)
		switch w {
		case "requires":
			cl, err := parseClauseExpr(path, l, "requires", rest, len(c.Requires)+1)
			if err != nil {
				return nil, err
			}
			c.Requires = append(c.Requires, cl)
		case "ensures":
			cl, err := parseClauseExpr(path, l, "ensures", rest, len(c.Ensures)+1)
			if err != nil {
				return nil, err
			}
			c.Ensures = append(c.Ensures, cl)
		case "assert":
			cl, err := parseClauseExpr(path, l, "assert", rest, len(c.Asserts)+1)
			if err != nil {
				return nil, err
			}
			c.Asserts = append(c.Asserts, cl)
		case "modifies":
			body, _ := splitFor(rest)
			c.ModSet = true
			if body == "*" || body == "all" {
				c.ModAll = true
				break
			}
			if body == "nothing" || body == "" {
				break
			}
			for _, part := range splitTop(body, ',') {
				e, err := ParseExpr(part)
				if err != nil {
					return nil, fmt.Errorf("%s:%d: %v", path, l.line, err)
				}
				c.Modifies = append(c.Modifies, e)
			}
		case "loop":
			body, _ := splitFor(rest)
			body = strings.TrimSuffix(strings.TrimSpace(strings.TrimPrefix(strings.TrimSpace(body), ":")), ":")
			n, err := strconv.Atoi(strings.TrimSpace(body))
			if err != nil {
				return nil, fmt.Errorf("%s:%d: bad loop ordinal %q", path, l.line, body)
			}
			curLoop = &LoopSpec{Ordinal: n}
			c.Loops[n] = curLoop
		case "invariant":
			if curLoop == nil {
				return nil, fmt.Errorf("%s:%d: invariant outside loop", path, l.line)
			}
			cl, err := parseClauseExpr(path, l, "invariant", rest, len(curLoop.Invariants)+1)
			if err != nil {
				return nil, err
			}
			curLoop.Invariants = append(curLoop.Invariants, cl)
		case "decreases":
			if curLoop == nil {
				return nil, fmt.Errorf("%s:%d: decreases outside loop", path, l.line)
			}
			body, _ := splitFor(rest)
			e, err := ParseExpr(body)
			if err != nil {
				return nil, fmt.Errorf("%s:%d: %v", path, l.line, err)
			}
			curLoop.Decreases = e
		case "atstore":
			r := strings.TrimSpace(rest)
			i := strings.Index(r, " requires ")
			if i < 0 {
				return nil, fmt.Errorf("%s:%d: atstore needs 'requires'", path, l.line)
			}
			fld := strings.TrimSpace(r[:i])
			cl, err := parseClauseExpr(path, l, "atstore", r[i+10:], 0)
			if err != nil {
				return nil, err
			}
			if c.AtStore == nil {
				c.AtStore = map[string][]*Clause{}
			}
			cl.Idx = len(c.AtStore[fld]) + 1
			c.AtStore[fld] = append(c.AtStore[fld], cl)
		case "allocbound":
			cl, err := parseClauseExpr(path, l, "allocbound", rest, 1)
			if err != nil {
				return nil, err
			}
			c.AllocBound = cl
		case "atcall":
			// atcall Callee requires expr
			r := strings.TrimSpace(rest)
			i := strings.Index(r, " requires ")
			if i < 0 {
				return nil, fmt.Errorf("%s:%d: atcall needs 'requires'", path, l.line)
			}
			callee := strings.TrimSpace(r[:i])
			cl, err := parseClauseExpr(path, l, "atcall", r[i+10:], 0)
			if err != nil {
				return nil, err
			}
			if c.AtCall == nil {
				c.AtCall = map[string][]*Clause{}
			}
			cl.Idx = len(c.AtCall[callee]) + 1
			c.AtCall[callee] = append(c.AtCall[callee], cl)
		case "safe":
			c.Safe = true
		case "nooverflow":
			c.NoOvf = true
		case "trusted":
			c.Trusted = true
		case "inline":
			c.Inline = true
		case "mode":
			c.Mode = strings.TrimSpace(rest)
		case "for":
			c.For = append(c.For, strings.Fields(strings.ReplaceAll(rest, ",", " "))...)
		case "uses":
			c.Uses = append(c.Uses, strings.Fields(strings.ReplaceAll(rest, ",", " "))...)
		case "opt":
			kv := strings.SplitN(strings.TrimSpace(rest), "=", 2)
			if len(kv) == 2 {
				c.Opts[strings.TrimSpace(kv[0])] = strings.TrimSpace(kv[1])
			} else {
				c.Opts[strings.TrimSpace(kv[0])] = "1"
			}
		default:
			return nil, fmt.Errorf("%s:%d: unknown clause %q", path, l.line, l.text)
		}
	}
	return c, nil
}

// splitTop splits s at sep occurring outside brackets.
func splitTop(s string, sep byte) []string {
	var out []string
	depth := 0
	start := 0
	for i := 0; i < len(s); i++ {
		switch s[i] {
		case '(', '[', '{':
			depth++
		case ')', ']', '}':
			depth--
		default:
			if s[i] == sep && depth == 0 {
				out = append(out, strings.TrimSpace(s[start:i]))
				start = i + 1
			}
		}
	}
	out = append(out, strings.TrimSpace(s[start:]))
	return out
}

func parseParamList(p *parser) []QVar {
	var out []QVar
	p.expectOp("(")
	for !p.isOp(")") {
		var names []string
		names = append(names, p.next().val)
		for p.isOp(",") {
			p.next()
			names = append(names, p.next().val)
		}
		ty := p.parseType()
		for _, n := range names {
			out = append(out, QVar{n, ty})
		}
		if p.isOp(",") {
			p.next()
		}
	}
	p.expectOp(")")
	return out
}

// spec func name(params) T = expr       (or no "= expr": uninterpreted)
func parseSpecFunc(pkgPath, path string, head rawLine, clauses []rawLine) (sf *SpecFunc, err error) {
	text := strings.TrimSpace(head.text)
	for _, l := range clauses {
		b, _ := splitFor(l.text)
		text += " " + b
	}
	text, _ = splitFor(text)
	text = strings.TrimSpace(strings.TrimPrefix(text, "spec"))
	text = strings.TrimSpace(strings.TrimPrefix(text, "func"))
	sig := text
	body := ""
	if i := strings.Index(text, " = "); i >= 0 {
		sig = text[:i]
		body = text[i+3:]
	}
	toks, err := lex(sig)
	if err != nil {
		return nil, fmt.Errorf("%s:%d: %v", path, head.line, err)
	}
	defer func() {
		if r := recover(); r != nil {
			err = fmt.Errorf("%s:%d: %v", path, head.line, r)
		}
	}()
	p := &parser{toks: toks, src: sig}
	name := p.next().val
	params := parseParamList(p)
	res := p.parseType()
	sf = &SpecFunc{PkgPath: pkgPath, Name: name, Params: params, Result: res, Src: text, File: path, Line: head.line}
	if body != "" {
		e, err := ParseExpr(body)
		if err != nil {
			return nil, fmt.Errorf("%s:%d: %v", path, head.line, err)
		}
		sf.Body = e
	}
	return sf, nil
}

func parseLemma(pkgPath, path string, head rawLine, clauses []rawLine) (lm *Lemma, err error) {
	text, forList := splitFor(strings.TrimSpace(head.text))
	_, text = firstWord(text) // drop lemma/axiom
	toks, err := lex(text)
	if err != nil {
		return nil, fmt.Errorf("%s:%d: %v", path, head.line, err)
	}
	defer func() {
		if r := recover(); r != nil {
			err = fmt.Errorf("%s:%d: %v", path, head.line, r)
		}
	}()
	p := &parser{toks: toks, src: text}
	name := p.next().val
	params := parseParamList(p)
	lm = &Lemma{PkgPath: pkgPath, Name: name, Params: params, For: forList, File: path, Line: head.line}
	for _, l := range clauses {
		w, rest := firstWord(l.text)
		switch w {
		case "requires":
			cl, err := parseClauseExpr(path, l, "requires", rest, len(lm.Requires)+1)
			if err != nil {
				return nil, err
			}
			lm.Requires = append(lm.Requires, cl)
		case "ensures":
			cl, err := parseClauseExpr(path, l, "ensures", rest, len(lm.Ensures)+1)
			if err != nil {
				return nil, err
			}
			lm.Ensures = append(lm.Ensures, cl)
		case "induction":
			lm.Induction = strings.TrimSpace(rest)
		case "pattern":
			b, _ := splitFor(rest)
			for _, part := range splitTop(b, ';') {
				e, err := ParseExpr(part)
				if err != nil {
					return nil, fmt.Errorf("%s:%d: %v", path, l.line, err)
				}
				lm.Pattern = append(lm.Pattern, e)
			}
		case "for":
			lm.For = append(lm.For, strings.Fields(strings.ReplaceAll(rest, ",", " "))...)
		case "uses":
			lm.Uses = append(lm.Uses, strings.Fields(strings.ReplaceAll(rest, ",", " "))...)
		default:
			return nil, fmt.Errorf("%s:%d: unknown lemma clause %q", path, l.line, l.text)
		}
	}
	return lm, nil
}

const repoModule = "github.com/kardiachain/go-kardia"

// LoadAllSpecs loads every contract file under repo and every .spec under specDir.
func LoadAllSpecs(repo, specDir string) (*SpecSet, error) {
	ss := NewSpecSet()
	var files []string
	filepath.Walk(repo, func(p string, info os.FileInfo, err error) error {
		if err != nil {
			return nil
		}
		if info.IsDir() && (info.Name() == ".git" || info.Name() == "node_modules") {
			return filepath.SkipDir
		}
		if !info.IsDir() && info.Name() == "zz_contracts_verif.go" {
			files = append(files, p)
		}
		return nil
	})
	sort.Strings(files)
	for _, f := range files {
		rel, _ := filepath.Rel(repo, filepath.Dir(f))
		pkgPath := repoModule
		if rel != "." {
			pkgPath += "/" + filepath.ToSlash(rel)
		}
		if err := ss.LoadContractFile(f, pkgPath); err != nil {
			return nil, err
		}
	}
	specs, _ := filepath.Glob(filepath.Join(specDir, "*.spec"))
	sort.Strings(specs)
	for _, f := range specs {
		if err := ss.LoadContractFile(f, ""); err != nil {
			return nil, err
		}
	}
	return ss, nil
}
