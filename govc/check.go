package main

import (
	"encoding/json"
	"fmt"
	"os"
	"path/filepath"
	"regexp"
	"sort"
	"strings"
	"sync"
	"time"
)

const verifRoot = "/verif"

type CheckOpts struct {
	Prop     string
	Tier     string
	Overlay  map[string][]byte
	Only     string
	Debug    bool
	Dump     bool
	Quiet    bool
	Repo     string
	NoReplay bool
	NoEvid   bool
	Timeout  int
}

type KnownFinding struct {
	Property   string `json:"property"`
	Obligation string `json:"obligation"`
	WhatFails  string `json:"what_fails"`
	Note       string `json:"note,omitempty"`
}

type FixedFinding struct {
	Property   string `json:"property"`
	Commit     string `json:"commit"`
	WhatFailed string `json:"what_failed"`
	Obligation string `json:"obligation,omitempty"`
}

type KnownFindings struct {
	Open  []KnownFinding `json:"open"`
	Fixed []FixedFinding `json:"fixed"`
}

func loadKnownFindings() KnownFindings {
	var kf KnownFindings
	b, err := os.ReadFile(filepath.Join(verifRoot, "known_findings.json"))
	if err == nil {
		json.Unmarshal(b, &kf)
	}
	return kf
}

type CheckResult struct {
	Prop        string
	Obls        []*Obligation
	Units       []*Unit
	Failed      []*Obligation
	Known       []*Obligation
	Missing     []string
	Discharged  int
	Total       int
	WallS       float64
	SolverMs    int64
	Functions   []string
	Trusted     []string
	Notes       []string
	LoadErr     error
	Violations  []string // output lines
	KnownLines  []string
	BySolver    map[string]int
	ExtraChecks []ExtraCheck
	Thorough    *ThoroughStats
}

type ExtraCheck struct {
	Name string
	Ok   bool
	Msg  string
}

func pkgPatterns(cons []*Contract, lemmas []*Lemma, extra []string) []string {
	set := map[string]bool{}
	for _, c := range cons {
		set[c.PkgPath] = true
	}
	for _, l := range lemmas {
		if strings.HasPrefix(l.PkgPath, repoModule) {
			set[l.PkgPath] = true
		}
	}
	for _, e := range extra {
		set[e] = true
	}
	var out []string
	for p := range set {
		rel := strings.TrimPrefix(p, repoModule)
		out = append(out, "."+rel)
	}
	sort.Strings(out)
	return out
}

func RunCheck(o CheckOpts) *CheckResult {
	start := time.Now()
	res := &CheckResult{Prop: o.Prop, BySolver: map[string]int{}}
	if o.Repo == "" {
		o.Repo = "/repo"
	}
	specs, err := LoadAllSpecsOverlay(o.Repo, filepath.Join(verifRoot, "specs"), o.Overlay)
	if err != nil {
		res.LoadErr = err
		return res
	}
	cons := specs.contractsFor(o.Prop)
	lemmas := specs.lemmasFor(o.Prop)
	var censusPkgs []string
	for _, c := range specs.Census {
		for _, f := range c.For {
			if f == o.Prop {
				censusPkgs = append(censusPkgs, c.PkgPath)
			}
		}
	}
	if len(cons) == 0 && len(lemmas) == 0 {
		res.LoadErr = fmt.Errorf("no contracts tagged for %s", o.Prop)
		return res
	}
	pats := pkgPatterns(cons, lemmas, censusPkgs)
	t0 := time.Now()
	eng, err := LoadEngine(o.Repo, pats, o.Overlay, specs)
	if err != nil {
		res.LoadErr = err
		return res
	}
	eng.debug = o.Debug
	eng.loadSecs = time.Since(t0).Seconds()
	// generate
	for _, c := range cons {
		if o.Only != "" && !onlyMatch(c.Key(), o.Only) {
			continue
		}
		fn, err := eng.FindFunction(c)
		short := strings.TrimPrefix(c.PkgPath, repoModule+"/") + "." + c.Key()
		if err != nil {
			u := NewUnit(eng, short, nil)
			u.addObl(&Obligation{Name: short + "#missing", Kind: "engine", Fail: err.Error()})
			res.Units = append(res.Units, u)
			continue
		}
		u := eng.VerifyFunction(fn, c)
		res.Units = append(res.Units, u)
		res.Functions = append(res.Functions, short)
	}
	for _, l := range lemmas {
		if o.Only != "" && !onlyMatch(l.Name, o.Only) {
			continue
		}
		u := eng.VerifyLemma(l)
		res.Units = append(res.Units, u)
	}
	for _, c := range specs.Census {
		for _, f := range c.For {
			if f == o.Prop {
				res.ExtraChecks = append(res.ExtraChecks, eng.runCensus(c))
			}
		}
	}
	for _, u := range res.Units {
		res.Obls = append(res.Obls, u.obls...)
	}
	// solve
	// quick budget: obligations on the unchanged tree discharge in well under 5 s; the margin is for
	// loaded machines (a timeout would be a false alarm)
	timeout := 20
	if o.Tier == "thorough" {
		timeout = 60
	}
	if o.Timeout > 0 {
		timeout = o.Timeout
	}
	var wg sync.WaitGroup
	sem := make(chan struct{}, 14)
	for _, ob := range res.Obls {
		if ob.Fail != "" {
			continue
		}
		ob := ob
		wg.Add(1)
		sem <- struct{}{}
		go func() {
			defer wg.Done()
			defer func() { <-sem }()
			solveObligation(ob, timeout, o.Dump)
		}()
	}
	wg.Wait()
	// classify
	kf := loadKnownFindings()
	known := map[string]KnownFinding{}
	for _, k := range kf.Open {
		if k.Property == o.Prop {
			known[stripInstance(k.Obligation)] = k
		}
	}
	seenKnown := map[string]bool{}
	for _, ob := range res.Obls {
		res.Total++
		ok := false
		if ob.Fail == "" {
			if ob.Expect == "sat" {
				ok = ob.Result.Status == "sat" || ob.Result.Status == "unknown" || ob.Result.Status == "timeout"
				// a vacuity guard fails only on a definite unsat
			} else {
				ok = ob.Result.Status == "unsat"
			}
			res.SolverMs += ob.Result.Ms
		}
		if ok {
			res.Discharged++
			res.BySolver[ob.Result.Solver]++
			continue
		}
		if k, isKnown := known[stripInstance(ob.Name)]; isKnown {
			res.Known = append(res.Known, ob)
			if !seenKnown[stripInstance(ob.Name)] {
				seenKnown[stripInstance(ob.Name)] = true
				res.KnownLines = append(res.KnownLines, fmt.Sprintf("KNOWN-FINDING: property=%s %s [%s]", o.Prop, k.WhatFails, ob.Name))
			}
			continue
		}
		res.Failed = append(res.Failed, ob)
	}
	// a listed finding that no longer fails is reported (not an error): the file is stale
	for name := range known {
		if !seenKnown[name] {
			res.Notes = append(res.Notes, "known finding no longer reproduces (obligation discharged or gone): "+name)
		}
	}
	// inventory
	if o.Only == "" {
		res.Missing = checkInventory(o.Prop, res.Obls)
	}
	tset, nset := map[string]bool{}, map[string]bool{}
	for _, u := range res.Units {
		for t := range u.trusted {
			tset[t] = true
		}
		for n := range u.notes {
			nset[n] = true
		}
	}
	for t := range tset {
		res.Trusted = append(res.Trusted, t)
	}
	for n := range nset {
		res.Notes = append(res.Notes, n)
	}
	sort.Strings(res.Trusted)
	sort.Strings(res.Notes)
	if o.Tier == "thorough" {
		res.runThorough(o)
	}
	res.WallS = time.Since(start).Seconds()
	return res
}

func solveObligation(ob *Obligation, timeout int, dump bool) {
	u := ob.Unit
	var script string
	if ob.Expect == "sat" {
		g := ""
		if ob.Goal != "" {
			g = ob.Goal
		}
		script = u.ScriptOpt(ob.ScriptLn, g, false, true)
	} else {
		script = u.Script(ob.ScriptLn, "(not "+ob.Goal+")", false)
	}
	file := writeSMT(ob.Name, script)
	if ob.Expect == "sat" {
		// vacuity guard: only a definite unsat is a failure; one solver, short budget
		st, out, ms := runSolver(nil2ctx(), solvers[0], file, 2)
		ob.Result = SolveResult{Status: st, Solver: solvers[0].name, Ms: ms, Output: out}
		return
	}
	ob.Result = Solve(file, timeout, false)
	if ob.Expect == "" && ob.Result.Status == "sat" {
		// fetch a model
		mfile := writeSMT(ob.Name+".model", u.Script(ob.ScriptLn, "(not "+ob.Goal+")", true))
		st, out, _ := runSolver(nil2ctx(), solvers[0], mfile, timeout)
		if st == "sat" {
			ob.Result.Model = out
		}
	}
	if ob.Expect == "" && (ob.Result.Status == "unknown" || ob.Result.Status == "timeout") {
		// candidate-finding query: drop the quantified hypotheses (an under-approximation of the
		// assumptions); a model of the rest is only a candidate failing input
		var b strings.Builder
		for _, l := range strings.Split(u.Script(ob.ScriptLn, "(not "+ob.Goal+")", true), "\n") {
			if strings.HasPrefix(l, "(assert") && (strings.Contains(l, "(forall ") || strings.Contains(l, "(exists ")) {
				continue
			}
			b.WriteString(l)
			b.WriteString("\n")
		}
		cfile := writeSMT(ob.Name+".cand", b.String())
		st, out, _ := runSolver(nil2ctx(), solvers[0], cfile, 5)
		if st == "sat" {
			ob.Result.Candidate = out
		}
	}
	if dump {
		fmt.Fprintf(os.Stderr, "[dump] %s -> %s (%s)\n", ob.Name, file, ob.Result.Status)
	}
}

// inventory: names of clause-derived obligations that must be present.
func inventoryNames(obls []*Obligation) []string {
	set := map[string]bool{}
	for _, ob := range obls {
		switch ob.Kind {
		case "ensures", "invariant-init", "invariant-preserve", "lemma", "census", "guard", "roundtrip", "decreases":
			// the number of return points / call sites / back edges may change with harmless edits
			set[stripInstance(ob.Name)] = true
		case "engine", "unsupported":
		default:
			// generated from the code: pin only "this unit produced obligations of this group"
			grp := ob.Kind
			if k := strings.Index(grp, ":"); k >= 0 {
				grp = grp[:k]
			}
			if ob.Unit != nil {
				set[ob.Unit.Name+"#"+grp] = true
			}
		}
	}
	var out []string
	for n := range set {
		out = append(out, n)
	}
	sort.Strings(out)
	return out
}

var instanceSuffix = regexp.MustCompile(`(@ret\d+|~\d+|\.\d+$)`)

func stripInstance(n string) string { return instanceSuffix.ReplaceAllString(n, "") }

func checkInventory(prop string, obls []*Obligation) []string {
	b, err := os.ReadFile(filepath.Join(verifRoot, "inventory", prop+".txt"))
	if err != nil {
		return []string{"inventory file missing for " + prop}
	}
	have := map[string]bool{}
	for _, n := range inventoryNames(obls) {
		have[n] = true
	}
	var missing []string
	for _, l := range strings.Split(string(b), "\n") {
		l = strings.TrimSpace(l)
		if l == "" || strings.HasPrefix(l, "#") {
			continue
		}
		if !have[l] {
			missing = append(missing, l)
		}
	}
	return missing
}

func writeInventory(prop string, obls []*Obligation) error {
	os.MkdirAll(filepath.Join(verifRoot, "inventory"), 0o755)
	names := inventoryNames(obls)
	return os.WriteFile(filepath.Join(verifRoot, "inventory", prop+".txt"), []byte("# expected obligations for "+prop+" (generated by `govc inventory`; a missing name fails the check)\n"+strings.Join(names, "\n")+"\n"), 0o644)
}

// ------------------------------------------------------------------ reporting

func (res *CheckResult) Report(o CheckOpts) int {
	prop := o.Prop
	if res.LoadErr != nil {
		path := writeReplayFile(prop, "load-error", "the verifier could not load /repo with the contract files:\n"+res.LoadErr.Error())
		fmt.Printf("VIOLATION property=%s replay=%s no-failing-input-found\n", prop, path)
		if !o.NoEvid {
			writeEvidence(o, res, 1)
		}
		return 1
	}
	if !o.Quiet {
		fmt.Printf("govc: property %s: %d obligations, %d discharged, %d failed, %d known findings; %d functions; load %.1fs, solver %.1fs cpu, wall %.1fs\n",
			prop, res.Total, res.Discharged, len(res.Failed), len(res.Known), len(res.Functions), 0.0, float64(res.SolverMs)/1000, res.WallS)
	}
	for _, l := range res.KnownLines {
		fmt.Println(l)
	}
	viol := 0
	for _, ob := range res.Failed {
		viol++
		var body strings.Builder
		fmt.Fprintf(&body, "property: %s\nobligation: %s\nkind: %s\nfunction: %s\nposition: %s\nclause: %s\n", prop, ob.Name, ob.Kind, ob.Func, ob.Pos, ob.Clause)
		suffix := " no-failing-input-found"
		if ob.Fail != "" {
			fmt.Fprintf(&body, "status: not generated (fails closed)\nreason: %s\n", ob.Fail)
		} else {
			fmt.Fprintf(&body, "status: %s\nsolvers: %s\n", ob.Result.Status, strings.Join(ob.Result.Tried, " "))
			if ob.Expect == "sat" {
				fmt.Fprintf(&body, "this is a vacuity guard: the assumptions of the function are contradictory (unsat), so every proof about it would be vacuous\n")
			}
			if ob.Result.Model != "" {
				fmt.Fprintf(&body, "\ncounterexample model (SMT):\n%s\n", trimModel(ob.Result.Model))
				if !o.NoReplay {
					if rp, confirmed := tryReplay(o, ob); rp != "" {
						fmt.Fprintf(&body, "\nreplay on the real code:\n%s\n", rp)
						if confirmed {
							suffix = ""
						}
					}
				}
			} else if ob.Result.Output != "" {
				fmt.Fprintf(&body, "\nsolver output:\n%s\n", firstLines(ob.Result.Output, 30))
			}
			if ob.Result.Candidate != "" {
				fmt.Fprintf(&body, "\ncandidate counterexample (model of the quantifier-free part of the hypotheses; a candidate only):\n%s\n", candidateSummary(ob.Result.Candidate))
				if !o.NoReplay && ob.Result.Model == "" {
					if rp, confirmed := tryReplay(o, ob); rp != "" {
						fmt.Fprintf(&body, "\nreplay on the real code:\n%s\n", rp)
						if confirmed {
							suffix = ""
						}
					}
				}
			}
		}
		path := writeReplayFile(prop, ob.Name, body.String())
		fmt.Printf("VIOLATION property=%s replay=%s%s\n", prop, path, suffix)
		if !o.Quiet {
			fmt.Printf("  obligation %s [%s] %s: %s %s\n", ob.Name, ob.Kind, ob.Pos, ob.Result.Status, ob.Fail)
		}
	}
	for _, m := range res.Missing {
		viol++
		path := writeReplayFile(prop, "missing:"+m, "property: "+prop+"\nobligation: "+m+"\nstatus: pinned obligation was not generated on this run (function, loop or clause vanished): fails closed\n")
		fmt.Printf("VIOLATION property=%s replay=%s no-failing-input-found\n", prop, path)
	}
	for _, ec := range res.ExtraChecks {
		if !ec.Ok {
			viol++
			path := writeReplayFile(prop, ec.Name, "property: "+prop+"\nobligation: "+ec.Name+"\n"+ec.Msg+"\n")
			fmt.Printf("VIOLATION property=%s replay=%s no-failing-input-found\n", prop, path)
		}
	}
	if !o.NoEvid {
		writeEvidence(o, res, viol)
	}
	if viol > 0 {
		return 1
	}
	return 0
}

// candidateSummary extracts the interesting constants (parameters, locals) from a model.
func candidateSummary(model string) string {
	var out []string
	lines := strings.Split(model, "\n")
	for i := 0; i < len(lines); i++ {
		l := strings.TrimSpace(lines[i])
		l2 := strings.Replace(l, "(define-fun |", "(define-fun ", 1)
		if strings.HasPrefix(l2, "(define-fun p$") || strings.HasPrefix(l2, "(define-fun L$") || strings.HasPrefix(l2, "(define-fun res!") {
			v := ""
			if i+1 < len(lines) {
				v = strings.TrimSpace(lines[i+1])
			}
			if len(v) > 200 {
				v = v[:200] + "..."
			}
			out = append(out, l+" "+v)
		}
	}
	if len(out) > 60 {
		out = out[:60]
	}
	return strings.Join(out, "\n")
}

func firstLines(s string, n int) string {
	l := strings.Split(s, "\n")
	if len(l) > n {
		l = l[:n]
	}
	return strings.Join(l, "\n")
}

func trimModel(m string) string {
	if len(m) > 20000 {
		return m[:20000] + "\n...(truncated)"
	}
	return m
}

func writeReplayFile(prop, name, body string) string {
	dir := filepath.Join(verifRoot, "replay", "out", prop)
	if d := os.Getenv("GOVC_REPLAY_DIR"); d != "" {
		dir = filepath.Join(d, prop)
	}
	os.MkdirAll(dir, 0o755)
	safe := strings.Map(func(r rune) rune {
		if r >= 'a' && r <= 'z' || r >= 'A' && r <= 'Z' || r >= '0' && r <= '9' || r == '_' || r == '-' || r == '.' {
			return r
		}
		return '_'
	}, name)
	if len(safe) > 180 {
		safe = safe[:180]
	}
	p := filepath.Join(dir, safe+".txt")
	os.WriteFile(p, []byte(body), 0o644)
	return p
}

func writeEvidence(o CheckOpts, res *CheckResult, viol int) {
	type oblEv struct {
		Name   string `json:"name"`
		Kind   string `json:"kind"`
		Func   string `json:"function"`
		Clause string `json:"clause,omitempty"`
		Status string `json:"status"`
		Solver string `json:"solver,omitempty"`
		Ms     int64  `json:"ms"`
	}
	var obls []oblEv
	var samples []interface{}
	for _, ob := range res.Obls {
		st := ob.Result.Status
		if ob.Fail != "" {
			st = "not-generated: " + ob.Fail
		}
		obls = append(obls, oblEv{ob.Name, ob.Kind, ob.Func, ob.Clause, st, ob.Result.Solver, ob.Result.Ms})
	}
	for _, ob := range res.Obls {
		if len(samples) >= 3 {
			break
		}
		if ob.Kind == "ensures" || ob.Kind == "lemma" || ob.Kind == "invariant-preserve" {
			g := ob.Goal
			if len(g) > 600 {
				g = g[:600] + "..."
			}
			samples = append(samples, map[string]string{"obligation": ob.Name, "clause": ob.Clause, "smt_goal": g})
		}
	}
	if len(samples) == 0 && len(res.Obls) > 0 {
		samples = append(samples, map[string]string{"obligation": res.Obls[0].Name, "clause": res.Obls[0].Clause})
	}
	if len(samples) == 0 {
		samples = append(samples, "no obligations generated")
	}
	level := "proof"
	if lv, ok := propLevels[o.Prop]; ok {
		level = lv
	}
	seed := 0
	fmt.Sscanf(os.Getenv("VERIF_SEED"), "%d", &seed)
	tier := o.Tier
	if tier != "thorough" {
		tier = "quick"
	}
	var known []string
	for _, l := range res.KnownLines {
		known = append(known, l)
	}
	assumptions := append([]string{}, res.Trusted...)
	assumptions = append(assumptions,
		"each function under contract runs atomically w.r.t. the state it touches (locks are no-ops, no goroutine interleaving is modelled)",
		"slice lengths/capacities are at most 2^48 (address-space bound)",
		"go/types + go/ssa lowering (x/tools v0.29.0) and the SMT encoding of SSA are trusted",
		"solvers z3 4.8.12 / z3-new 5.1.0 / cvc5 1.0 are trusted for unsat answers",
		"a panicking path ends the execution (partial correctness) except in functions marked safe, where every panic is an obligation",
		"termination is proved only where a decreases clause is given")
	for _, n := range res.Notes {
		if strings.HasPrefix(n, "channels:") || strings.HasPrefix(n, "go statements:") {
			assumptions = append(assumptions, n)
		}
	}
	cov := map[string]interface{}{
		// obligations the claim rests on: those generated, minus the ones listed as open known findings
		// (genuine defects recorded in /verif/known_findings.json; they are NOT discharged and are
		// reported on every run as KNOWN-FINDING lines)
		"obligations":                res.Total - len(res.Known),
		"discharged":                 res.Discharged,
		"obligations_generated":      res.Total,
		"known_finding_obligations":  len(res.Known),
		"known_findings":             known,
		"checker_cmd":                       fmt.Sprintf("/verif/bin/govc check %s --tier %s", o.Prop, tier),
		"trusted_base":                      res.Trusted,
		"functions_under_contract":          res.Functions,
		"by_solver":                         res.BySolver,
		"solver_cpu_s":                      float64(res.SolverMs) / 1000,
		"notes":                             res.Notes,
		"samples":                           samples,
		"obligation_list":                   obls,
		"missing_pinned":                    res.Missing,
		"explanation":                       "contract-based deductive verification: verification conditions generated from the go/ssa of /repo's working tree and the //@ contracts in <pkg>/zz_contracts_verif.go, each discharged by an SMT solver (unsat of the negated goal)",
	}
	if res.LoadErr != nil {
		cov["load_error"] = res.LoadErr.Error()
	}
	if res.Thorough != nil {
		cov["thorough"] = res.Thorough
	}
	ev := map[string]interface{}{
		"property_id": o.Prop,
		"tier":        tier,
		"seed":        seed,
		"level":       level,
		"coverage":    cov,
		"assumptions": assumptions,
		"wall_s":      res.WallS,
		"violations":  viol,
	}
	os.MkdirAll(filepath.Join(verifRoot, "evidence"), 0o755)
	b, _ := json.MarshalIndent(ev, "", " ")
	os.WriteFile(filepath.Join(verifRoot, "evidence", o.Prop+".json"), b, 0o644)
}

var propLevels = map[string]string{"C01": "other"}

// onlyMatch: --only takes comma-separated substrings; a name matches if it contains any of them.
func onlyMatch(name, only string) bool {
	for _, p := range strings.Split(only, ",") {
		if p != "" && strings.Contains(name, p) {
			return true
		}
	}
	return false
}
