package main

// Thorough tier: on top of the quick tier's obligations (solved with a 60 s budget) every discharged
// obligation is re-checked by a second, independent solver, and every postcondition clause must be
// non-vacuous (its antecedent satisfiable at some reachable exit).

import (
	"fmt"
	"sort"
	"strings"
	"sync"
)

type ThoroughStats struct {
	CrossConfirmed   int      `json:"cross_checked_confirmed"`
	CrossUndecided   int      `json:"cross_checked_undecided_by_second_solver"`
	CrossDisagree    []string `json:"cross_check_disagreements"`
	CoverClauses     int      `json:"cover_clauses"`
	CoverReachable   int      `json:"cover_clauses_reachable"`
	CoverUndecided   int      `json:"cover_clauses_undecided"`
	CoverVacuous     []string `json:"cover_clauses_vacuous"`
	MustFailSeeds    int      `json:"must_fail_seeds_run"`
	MustFailCaught   int      `json:"must_fail_seeds_caught"`
	MustFailExpected int      `json:"must_fail_seeds_expected_caught"`
}

func otherSolvers(first string) []solverDef {
	var out []solverDef
	// prefer a different code base first (cvc5 against a z3, z3-new against cvc5)
	pref := []string{"cvc5-1.0", "z3-4.8.12", "z3-new-5.1.0"}
	if first == "cvc5-1.0" {
		pref = []string{"z3-new-5.1.0", "z3-4.8.12"}
	}
	for _, p := range pref {
		if p == first {
			continue
		}
		for _, s := range solvers {
			if s.name == p {
				out = append(out, s)
			}
		}
	}
	return out
}

func (res *CheckResult) runThorough(o CheckOpts) {
	ts := &ThoroughStats{}
	res.Thorough = ts
	var mu sync.Mutex
	var wg sync.WaitGroup
	sem := make(chan struct{}, 14)
	// 1. cross-check
	for _, ob := range res.Obls {
		if ob.Fail != "" || ob.Expect != "" || ob.Result.Status != "unsat" {
			continue
		}
		ob := ob
		wg.Add(1)
		sem <- struct{}{}
		go func() {
			defer wg.Done()
			defer func() { <-sem }()
			script := ob.Unit.Script(ob.ScriptLn, "(not "+ob.Goal+")", false)
			file := writeSMT(ob.Name+".x", script)
			others := otherSolvers(ob.Result.Solver)
			verdict := "undecided"
			for i, s := range others {
				st, _, _ := runSolver(nil2ctx(), s, file, 20)
				if st == "unsat" {
					verdict = "confirmed"
					break
				}
				if st == "sat" {
					// tie-break with the remaining solver
					verdict = "disagree:" + s.name
					if i+1 < len(others) {
						if st3, _, _ := runSolver(nil2ctx(), others[i+1], file, 30); st3 == "unsat" {
							verdict = "confirmed-2of3"
						}
					}
					break
				}
			}
			mu.Lock()
			switch {
			case strings.HasPrefix(verdict, "confirmed"):
				ts.CrossConfirmed++
			case strings.HasPrefix(verdict, "disagree"):
				ts.CrossDisagree = append(ts.CrossDisagree, ob.Name+" ("+ob.Result.Solver+" unsat, "+strings.TrimPrefix(verdict, "disagree:")+" sat)")
			default:
				ts.CrossUndecided++
			}
			mu.Unlock()
		}()
	}
	wg.Wait()
	// 2. cover
	type cov struct{ reach, undecided, total int }
	covers := map[string]*cov{}
	for _, ob := range res.Obls {
		if ob.Cover == "" || ob.Fail != "" {
			continue
		}
		ob := ob
		key := stripInstance(ob.Name)
		mu.Lock()
		if covers[key] == nil {
			covers[key] = &cov{}
		}
		covers[key].total++
		mu.Unlock()
		wg.Add(1)
		sem <- struct{}{}
		go func() {
			defer wg.Done()
			defer func() { <-sem }()
			script := ob.Unit.ScriptOpt(ob.ScriptLn, ob.Cover, false, true)
			file := writeSMT(ob.Name+".cover", script)
			st, _, _ := runSolver(nil2ctx(), solvers[0], file, 5)
			if st != "sat" && st != "unsat" {
				// quantified hypotheses make a definite sat rare: retry without them (unsat is then
				// still definite; sat means reachable as far as the quantifier-free part can tell)
				var b strings.Builder
				for _, l := range strings.Split(script, "\n") {
					if strings.HasPrefix(l, "(assert") && (strings.Contains(l, "(forall ") || strings.Contains(l, "(exists ")) {
						continue
					}
					b.WriteString(l + "\n")
				}
				file2 := writeSMT(ob.Name+".coverqf", b.String())
				st, _, _ = runSolver(nil2ctx(), solvers[0], file2, 5)
			}
			mu.Lock()
			switch st {
			case "sat":
				covers[key].reach++
			case "unsat":
			default:
				covers[key].undecided++
			}
			mu.Unlock()
		}()
	}
	wg.Wait()
	var keys []string
	for k := range covers {
		keys = append(keys, k)
	}
	sort.Strings(keys)
	for _, k := range keys {
		c := covers[k]
		ts.CoverClauses++
		switch {
		case c.reach > 0:
			ts.CoverReachable++
		case c.undecided > 0:
			ts.CoverUndecided++
		default:
			ts.CoverVacuous = append(ts.CoverVacuous, k)
		}
	}
	for _, d := range ts.CrossDisagree {
		res.ExtraChecks = append(res.ExtraChecks, ExtraCheck{Name: "cross-check:" + d, Ok: false, Msg: "two solvers disagree on this obligation: " + d})
	}
	for _, v := range ts.CoverVacuous {
		res.ExtraChecks = append(res.ExtraChecks, ExtraCheck{Name: "cover:" + v, Ok: false, Msg: "the antecedent of this postcondition is unsatisfiable at every exit of the function: the clause is vacuous (contract or code changed so that the case it describes cannot happen)"})
	}
	// 3. must-fail corpus for this property (informational: recorded in the evidence)
	if o.Overlay == nil && o.Only == "" {
		exp := loadExpected()
		var seeds []string
		for s, e := range exp {
			for _, p := range e.Props {
				if p == o.Prop {
					seeds = append(seeds, s)
					break
				}
			}
		}
		sort.Strings(seeds)
		results := make([]seedResult, len(seeds))
		sem2 := make(chan struct{}, 3)
		for i, s := range seeds {
			i, s := i, s
			wg.Add(1)
			sem2 <- struct{}{}
			go func() {
				defer wg.Done()
				defer func() { <-sem2 }()
				results[i] = runSeed(s, []string{o.Prop}, 0)
			}()
		}
		wg.Wait()
		for i, r := range results {
			if r.Err != "" {
				continue // patch no longer applies to this tree: skipped
			}
			ts.MustFailSeeds++
			if r.Caught {
				ts.MustFailCaught++
			}
			if exp[seeds[i]].Caught && len(exp[seeds[i]].Props) == 1 {
				ts.MustFailExpected++
			}
		}
		if !o.Quiet {
			fmt.Printf("govc: must-fail corpus for %s: %d seeded changes run, %d caught (%d expected from this check alone)\n", o.Prop, ts.MustFailSeeds, ts.MustFailCaught, ts.MustFailExpected)
		}
	}
	if !o.Quiet {
		fmt.Printf("govc: thorough: cross-check %d confirmed by a second solver, %d undecided by it, %d disagreements; cover: %d clauses, %d reachable, %d undecided, %d vacuous\n",
			ts.CrossConfirmed, ts.CrossUndecided, len(ts.CrossDisagree), ts.CoverClauses, ts.CoverReachable, ts.CoverUndecided, len(ts.CoverVacuous))
	}
}
