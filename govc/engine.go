package main

import (
	"fmt"
	"go/types"
	"os"
	"sort"
	"strings"

	"golang.org/x/tools/go/packages"
	"golang.org/x/tools/go/ssa"
	"golang.org/x/tools/go/ssa/ssautil"
)

type Engine struct {
	repo          string
	prog          *ssa.Program
	pkgs          []*packages.Package
	allPkgs       map[string]*packages.Package
	ssaPkgs       map[string]*ssa.Package
	specs         *SpecSet
	typeIDs       map[string]int
	funcIDs       map[*ssa.Function]int
	debug         bool
	guardHook     func(x *Executor, st *State, a *Addr, reach string)
	constGlob     map[string]bool
	constErrCache map[*ssa.Global]bool
	canonStructs  map[*types.Struct]types.Type
	gmapByKey     map[string]*types.Named
	gmaps         map[*types.Named]*types.Map
	loadSecs      float64
}

func (eng *Engine) typeID(t types.Type) int {
	k := shortType(t)
	if id, ok := eng.typeIDs[k]; ok {
		return id
	}
	id := len(eng.typeIDs) + 1
	eng.typeIDs[k] = id
	return id
}

func (eng *Engine) typeID2(k string) int {
	if id, ok := eng.typeIDs[k]; ok {
		return id
	}
	id := len(eng.typeIDs) + 1
	eng.typeIDs[k] = id
	return id
}

func (eng *Engine) funcID(f *ssa.Function) int {
	if id, ok := eng.funcIDs[f]; ok {
		return id
	}
	id := len(eng.funcIDs) + 1
	eng.funcIDs[f] = id
	return id
}

func (eng *Engine) isConstGlobal(comp string) bool { return eng.constGlob[comp] }

// ghost maps: total mathematical maps (SMT arrays) used as ghost state.
func (eng *Engine) ghostMapType(k, v types.Type) types.Type {
	key := shortType(k) + "=>" + shortType(v)
	if t, ok := eng.gmapByKey[key]; ok {
		return t
	}
	n := types.NewNamed(types.NewTypeName(0, nil, "gmap["+shortType(k)+"]"+shortType(v), nil), types.NewMap(k, v), nil)
	if eng.gmapByKey == nil {
		eng.gmapByKey = map[string]*types.Named{}
		eng.gmaps = map[*types.Named]*types.Map{}
	}
	eng.gmapByKey[key] = n
	eng.gmaps[n] = n.Underlying().(*types.Map)
	return n
}

func (eng *Engine) isGhostMap(t types.Type) *types.Map {
	if n, ok := t.(*types.Named); ok {
		if m, ok := eng.gmaps[n]; ok {
			return m
		}
	}
	return nil
}

// constErrGlobal: a package-level variable of type error that is stored to only in the package
// initialiser is a non-nil constant (checked syntactically over the SSA of its package).
func (eng *Engine) constErrGlobal(g *ssa.Global, comp string) bool {
	if v, ok := eng.constErrCache[g]; ok {
		return v
	}
	res := false
	pt := g.Type().(*types.Pointer).Elem()
	if types.Identical(pt, types.Universe.Lookup("error").Type()) {
		res = true
		stores := 0
		var visit func(fn *ssa.Function)
		visit = func(fn *ssa.Function) {
			for _, b := range fn.Blocks {
				for _, in := range b.Instrs {
					if st, ok := in.(*ssa.Store); ok && st.Addr == g {
						if fn.Name() != "init" {
							res = false
						} else {
							stores++
							// must be initialised from a call (errors.New / fmt.Errorf)
							if _, isCall := st.Val.(*ssa.Call); !isCall {
								if _, isMk := st.Val.(*ssa.MakeInterface); !isMk {
									res = false
								}
							}
						}
					}
				}
			}
			for _, an := range fn.AnonFuncs {
				visit(an)
			}
		}
		for _, m := range g.Pkg.Members {
			switch mm := m.(type) {
			case *ssa.Function:
				visit(mm)
			case *ssa.Type:
				for _, t := range []types.Type{mm.Type(), types.NewPointer(mm.Type())} {
					ms := eng.prog.MethodSets.MethodSet(t)
					for i := 0; i < ms.Len(); i++ {
						if f := eng.prog.MethodValue(ms.At(i)); f != nil && f.Pkg == g.Pkg {
							visit(f)
						}
					}
				}
			}
		}
		if stores != 1 {
			res = false
		}
	}
	if eng.constErrCache == nil {
		eng.constErrCache = map[*ssa.Global]bool{}
	}
	eng.constErrCache[g] = res
	if res {
		eng.constGlob[comp] = true
	}
	return res
}

func (eng *Engine) typesPkg(path string) *types.Package {
	if p, ok := eng.allPkgs[path]; ok {
		return p.Types
	}
	return nil
}

// importByLocalName resolves a package qualifier the way the package's source files do.
func (eng *Engine) importByLocalName(pkg *types.Package, name string) *types.Package {
	p := eng.allPkgs[pkg.Path()]
	if p == nil {
		return nil
	}
	for _, f := range p.Syntax {
		if strings.HasSuffix(eng.prog.Fset.Position(f.Pos()).Filename, "zz_contracts_verif.go") {
			continue
		}
		for _, imp := range f.Imports {
			path := strings.Trim(imp.Path.Value, "\"")
			ip, ok := eng.allPkgs[path]
			if !ok || ip.Types == nil {
				continue
			}
			local := ip.Types.Name()
			if imp.Name != nil {
				local = imp.Name.Name
			}
			if local == name {
				return ip.Types
			}
		}
	}
	return nil
}

func (eng *Engine) importAlias(pkg *types.Package, name string) *types.Package {
	// imports renamed in source (e.g. kproto "…/proto/kardiachain/types"): consult syntax of the package
	p := eng.allPkgs[pkg.Path()]
	if p == nil {
		return nil
	}
	for _, f := range p.Syntax {
		for _, imp := range f.Imports {
			if imp.Name != nil && imp.Name.Name == name {
				path := strings.Trim(imp.Path.Value, "\"")
				if ip, ok := eng.allPkgs[path]; ok {
					return ip.Types
				}
			}
		}
	}
	// well-known packages available to every spec by their usual name
	for path, ip := range eng.allPkgs {
		if ip.Types != nil && ip.Types.Name() == name && (path == name || strings.HasSuffix(path, "/"+name)) {
			if strings.HasPrefix(path, repoModule) || !strings.Contains(path, ".") {
				return ip.Types
			}
		}
	}
	return nil
}

func envOffline() []string {
	env := os.Environ()
	env = append(env, "GOFLAGS=-mod=mod", "GOPROXY=off", "GOSUMDB=off", "GOTOOLCHAIN=local")
	return env
}

// Load loads the given package directories (relative import paths like ./types) from the repo.
func LoadEngine(repo string, patterns []string, overlay map[string][]byte, specs *SpecSet) (*Engine, error) {
	cfg := &packages.Config{
		Mode:       packages.LoadAllSyntax,
		Dir:        repo,
		BuildFlags: []string{"-tags=verif"},
		Env:        envOffline(),
		Overlay:    overlay,
	}
	pkgs, err := packages.Load(cfg, patterns...)
	if err != nil {
		return nil, err
	}
	var errs []string
	for _, p := range pkgs {
		for _, e := range p.Errors {
			errs = append(errs, e.Error())
		}
	}
	if len(errs) > 0 {
		return nil, fmt.Errorf("package errors:\n%s", strings.Join(errs, "\n"))
	}
	prog, _ := ssautil.AllPackages(pkgs, ssa.NaiveForm|ssa.GlobalDebug)
	prog.Build()
	eng := &Engine{repo: repo, prog: prog, pkgs: pkgs, allPkgs: map[string]*packages.Package{}, ssaPkgs: map[string]*ssa.Package{},
		specs: specs, typeIDs: map[string]int{}, funcIDs: map[*ssa.Function]int{}, constGlob: map[string]bool{}, canonStructs: map[*types.Struct]types.Type{}}
	packages.Visit(pkgs, nil, func(p *packages.Package) {
		eng.allPkgs[p.PkgPath] = p
	})
	for _, sp := range prog.AllPackages() {
		eng.ssaPkgs[sp.Pkg.Path()] = sp
	}
	// ghost fields declared on types of imported packages
	if specs.GhostDeclPkg == nil {
		specs.GhostDeclPkg = map[string]map[string]string{}
	}
	for _, g := range specs.GhostQualified {
		dp := eng.typesPkg(g.DeclPkg)
		if dp == nil {
			continue // declaring package not part of this load
		}
		ip := eng.importByLocalName(dp, g.Alias)
		if ip == nil {
			return nil, fmt.Errorf("ghost field %s.%s.%s: package %s does not import %s", g.Alias, g.Type, g.Field, g.DeclPkg, g.Alias)
		}
		k := ip.Path() + "." + g.Type
		if specs.GhostFlds[k] == nil {
			specs.GhostFlds[k] = map[string]*TypeExpr{}
		}
		specs.GhostFlds[k][g.Field] = g.Ty
		if specs.GhostDeclPkg[k] == nil {
			specs.GhostDeclPkg[k] = map[string]string{}
		}
		specs.GhostDeclPkg[k][g.Field] = g.DeclPkg
	}
	return eng, nil
}

// FindFunction resolves a contract to its ssa function.
func (eng *Engine) FindFunction(con *Contract) (*ssa.Function, error) {
	sp := eng.ssaPkgs[con.PkgPath]
	if sp == nil {
		return nil, fmt.Errorf("package %s not loaded", con.PkgPath)
	}
	if con.Recv == "" {
		// parent$N: the N-th anonymous function of a package-level function
		if i := strings.Index(con.Name, "$"); i > 0 {
			parent := sp.Func(con.Name[:i])
			if parent == nil {
				return nil, fmt.Errorf("function %s not found in %s", con.Name[:i], con.PkgPath)
			}
			for _, af := range parent.AnonFuncs {
				if af.Name() == con.Name {
					return af, nil
				}
			}
			return nil, fmt.Errorf("anonymous function %s not found in %s", con.Name, con.PkgPath)
		}
		f := sp.Func(con.Name)
		if f == nil {
			return nil, fmt.Errorf("function %s not found in %s", con.Name, con.PkgPath)
		}
		return f, nil
	}
	tn, ok := sp.Pkg.Scope().Lookup(con.Recv).(*types.TypeName)
	if !ok {
		return nil, fmt.Errorf("type %s not found in %s", con.Recv, con.PkgPath)
	}
	for _, t := range []types.Type{types.NewPointer(tn.Type()), tn.Type()} {
		sel := eng.prog.MethodSets.MethodSet(t).Lookup(sp.Pkg, con.Name)
		if sel != nil {
			f := eng.prog.MethodValue(sel)
			if f != nil {
				// unwrap synthetic pointer-receiver wrappers: find the declared method
				if f.Synthetic != "" {
					if obj, ok := sel.Obj().(*types.Func); ok {
						if df := eng.prog.FuncValue(obj); df != nil {
							return df, nil
						}
					}
				}
				return f, nil
			}
		}
	}
	return nil, fmt.Errorf("method %s.%s not found in %s", con.Recv, con.Name, con.PkgPath)
}

// contractsFor lists contracts (in repo packages) tagged with a property.
func (ss *SpecSet) contractsFor(prop string) []*Contract {
	var out []*Contract
	for pkg, m := range ss.Contracts {
		if !strings.HasPrefix(pkg, repoModule) {
			continue
		}
		for _, c := range m {
			if c.Trusted {
				continue
			}
			for _, f := range c.For {
				if f == prop {
					out = append(out, c)
					break
				}
			}
		}
	}
	for _, c := range ss.Aspects {
		for _, f := range c.For {
			if f == prop {
				out = append(out, c)
				break
			}
		}
	}
	sort.SliceStable(out, func(i, j int) bool {
		if out[i].PkgPath != out[j].PkgPath {
			return out[i].PkgPath < out[j].PkgPath
		}
		return out[i].Key() < out[j].Key()
	})
	return out
}

func (ss *SpecSet) lemmasFor(prop string) []*Lemma {
	var out []*Lemma
	for _, m := range ss.Lemmas {
		for _, l := range m {
			if l.Trusted {
				continue
			}
			for _, f := range l.For {
				if f == prop {
					out = append(out, l)
					break
				}
			}
		}
	}
	sort.Slice(out, func(i, j int) bool { return out[i].Name < out[j].Name })
	return out
}
