package main

// Unit: one verification unit (a function under contract, or a lemma). Holds SMT declarations,
// the linear script, obligations, and the mapping from Go types to SMT sorts.

import (
	"fmt"
	"go/constant"
	"go/types"
	"math/big"
	"regexp"
	"sort"
	"strings"

	"golang.org/x/tools/go/ssa"
)

type Obligation struct {
	Name     string
	Kind     string // ensures, requires@call, invariant-init, invariant-preserve, safe:index ...
	Func     string
	Clause   string
	Pos      string
	For      []string
	Goal     string // SMT Bool term that must be valid under script[:ScriptLen]
	ScriptLn int
	Unit     *Unit
	Result   SolveResult
	Expect   string // "" normal (goal must be valid = negation unsat); "sat": vacuity guard (query must be sat)
	Extra    []string
	Fail     string // non-empty: engine could not generate (unsupported construct) -> fails closed
	Cover    string // ensures obligations: exit condition and clause antecedent (must be satisfiable somewhere)
}

type Unit struct {
	eng       *Engine
	Name      string
	pkg       *types.Package
	sorts     []string
	sortSeen  map[string]bool
	decls     []string
	declSeen  map[string]bool
	script    []string
	obls      []*Obligation
	nfresh    int
	mute      int
	heapSorts map[string]string
	heapKinds map[string]string
	heapTypes map[string]types.Type // value type stored in a field/elem/cell component
	strLits   map[string]string
	trusted   map[string]bool
	notes     map[string]bool
	specDefs  map[string]*specDef
	specOrder []string
	forProps  []string
	curFunc   string
	curPos    string
	nameCount map[string]int
	allocs    []allocSite
	lemmaAx   map[string]bool
	atMatched map[string]bool // at-call / at-store clause keys that matched at least one site
	opaque    map[string]bool // spec functions whose definition is hidden in this unit (opt opaque)
	twoState  []*twoStateLemma // frame lemmas (mention old()): instantiated across every call
	oblLines  map[int]bool // script lines that assume an earlier obligation's goal
	assumedAt map[string]int
	constErrs []string
	// replay: the function, contract and parameter terms of a function unit
	replayFn     *ssa.Function
	replayCon    *Contract
	replayParams []string
}

type allocSite struct {
	Pos   string
	Size  string
	Reach string
	Ln    int
}

func NewUnit(eng *Engine, name string, pkg *types.Package) *Unit {
	return &Unit{eng: eng, Name: name, pkg: pkg, sortSeen: map[string]bool{}, declSeen: map[string]bool{},
		heapSorts: map[string]string{}, heapKinds: map[string]string{}, heapTypes: map[string]types.Type{}, strLits: map[string]string{}, trusted: map[string]bool{}, notes: map[string]bool{},
		specDefs: map[string]*specDef{}, nameCount: map[string]int{}, lemmaAx: map[string]bool{}}
}

const maxSliceLen = "281474976710656" // 2^48: address-space bound on slice lengths (trusted)

const prelude = `(set-option :produce-models true)
(set-logic ALL)
(declare-datatypes ((Slice 0)) (((mk-slice (s.base Int) (s.off Int) (s.len Int) (s.cap Int)))))
(declare-datatypes ((Iface 0)) (((mk-iface (i.tag Int) (i.val Int)))))
(declare-sort Str 0)
(declare-fun strlen (Str) Int)
(declare-fun strcat (Str Str) Str)
(declare-fun strat (Str Int) Int)
(declare-fun strlt (Str Str) Bool)
(declare-fun substr (Str Int Int) Str)
(declare-const str.empty Str)
(assert (= (strlen str.empty) 0))
(assert (forall ((s Str)) (! (>= (strlen s) 0) :pattern ((strlen s)))))
(assert (forall ((a Str) (b Str)) (! (= (strlen (strcat a b)) (+ (strlen a) (strlen b))) :pattern ((strcat a b)))))
(define-fun tdiv ((a Int) (b Int)) Int (ite (>= a 0) (ite (> b 0) (div a b) (- (div a (- b)))) (ite (> b 0) (- (div (- a) b)) (div (- a) (- b)))))
(define-fun tmod ((a Int) (b Int)) Int (- a (* b (tdiv a b))))
(define-fun wrapu ((x Int) (m Int)) Int (ite (and (<= 0 x) (< x m)) x (mod x m)))
(define-fun wraps ((x Int) (h Int)) Int (ite (and (<= (- h) x) (< x h)) x (- (mod (+ x h) (* 2 h)) h)))
(define-fun imin ((a Int) (b Int)) Int (ite (<= a b) a b))
(define-fun imax ((a Int) (b Int)) Int (ite (>= a b) a b))
(define-fun iabs ((a Int)) Int (ite (>= a 0) a (- a)))
(declare-fun bitand (Int Int) Int)
(declare-fun bitor (Int Int) Int)
(declare-fun bitxor (Int Int) Int)
(declare-fun bitshl (Int Int) Int)
(declare-fun pow2 (Int) Int)
(assert (forall ((a Int) (b Int)) (! (=> (and (>= a 0) (>= b 0)) (and (>= (bitand a b) 0) (<= (bitand a b) a) (<= (bitand a b) b))) :pattern ((bitand a b)))))
(assert (forall ((a Int) (b Int)) (! (=> (and (>= a 0) (>= b 0)) (and (>= (bitor a b) a) (>= (bitor a b) b) (<= (bitor a b) (+ a b)))) :pattern ((bitor a b)))))
(assert (forall ((a Int) (b Int)) (! (=> (and (>= a 0) (>= b 0)) (and (>= (bitxor a b) 0) (<= (bitxor a b) (+ a b)))) :pattern ((bitxor a b)))))
(assert (forall ((a Int)) (! (= (bitand a 0) 0) :pattern ((bitand a 0)))))
(assert (forall ((a Int)) (! (= (bitor a 0) a) :pattern ((bitor a 0)))))
(assert (forall ((a Int)) (! (= (bitand a a) a) :pattern ((bitand a a)))))
(assert (forall ((a Int)) (! (= (bitor a a) a) :pattern ((bitor a a)))))
(assert (forall ((a Int)) (! (= (bitxor a a) 0) :pattern ((bitxor a a)))))
(assert (forall ((a Int) (b Int)) (! (= (bitand a b) (bitand b a)) :pattern ((bitand a b)))))
(assert (forall ((a Int) (b Int)) (! (= (bitor a b) (bitor b a)) :pattern ((bitor a b)))))
(assert (forall ((a Int) (b Int)) (! (= (bitxor a b) (bitxor b a)) :pattern ((bitxor a b)))))
(assert (forall ((k Int)) (! (> (pow2 k) 0) :pattern ((pow2 k)))))
(assert (and (= (pow2 0) 1) (= (pow2 1) 2) (= (pow2 2) 4) (= (pow2 3) 8) (= (pow2 4) 16) (= (pow2 5) 32) (= (pow2 6) 64) (= (pow2 7) 128) (= (pow2 8) 256) (= (pow2 16) 65536) (= (pow2 24) 16777216) (= (pow2 32) 4294967296) (= (pow2 40) 1099511627776) (= (pow2 48) 281474976710656) (= (pow2 56) 72057594037927936) (= (pow2 63) 9223372036854775808) (= (pow2 64) 18446744073709551616)))
(assert (forall ((k Int)) (! (=> (>= k 0) (= (pow2 (+ k 1)) (* 2 (pow2 k)))) :pattern ((pow2 (+ k 1))))))
(assert (forall ((a Int) (b Int)) (! (=> (and (<= 0 a) (<= a b)) (<= (pow2 a) (pow2 b))) :pattern ((pow2 a) (pow2 b)))))
(declare-fun typeimpl (Int Int) Bool)
(declare-fun imul (Int Int) Int)
(assert (forall ((a Int) (b Int)) (! (and (= (imul a b) (imul b a)) (=> (and (>= a 0) (>= b 0)) (>= (imul a b) 0)) (=> (= a 0) (= (imul a b) 0)) (=> (= a 1) (= (imul a b) b)) (=> (and (> a 0) (> b 0)) (and (>= (imul a b) a) (>= (imul a b) b)))) :pattern ((imul a b)))))
(assert (forall ((a Int) (b Int) (c Int)) (! (=> (and (>= a 0) (<= b c)) (<= (imul a b) (imul a c))) :pattern ((imul a b) (imul a c)))))
(declare-fun tdivn (Int Int) Int)
(declare-fun tmodn (Int Int) Int)
(assert (forall ((a Int) (b Int)) (! (and (=> (and (>= a 0) (> b 0)) (and (<= 0 (tdivn a b)) (<= (tdivn a b) a))) (=> (and (<= a 0) (> b 0)) (and (<= a (tdivn a b)) (<= (tdivn a b) 0))) (=> (and (>= a 0) (< b 0)) (and (<= (- a) (tdivn a b)) (<= (tdivn a b) 0))) (=> (and (<= a 0) (< b 0)) (and (<= 0 (tdivn a b)) (<= (tdivn a b) (- a)))) (=> (= b 1) (= (tdivn a b) a)) (=> (and (> b 0) (>= a b)) (>= (tdivn a b) 1)) (=> (and (> b 0) (>= a 0) (< a b)) (= (tdivn a b) 0))) :pattern ((tdivn a b)))))
(assert (forall ((a Int) (b Int)) (! (and (=> (and (>= a 0) (> b 0)) (and (<= 0 (tmodn a b)) (< (tmodn a b) b))) (=> (and (>= a 0) (< b 0)) (and (<= 0 (tmodn a b)) (< (tmodn a b) (- b)))) (=> (and (<= a 0) (> b 0)) (and (< (- b) (tmodn a b)) (<= (tmodn a b) 0))) (=> (and (<= a 0) (< b 0)) (and (< b (tmodn a b)) (<= (tmodn a b) 0)))) :pattern ((tmodn a b)))))
(declare-fun refkind (Int) Int)
(declare-fun refroot (Int) Int)
(declare-fun sidx (Int Int) Int)
(assert (forall ((o Int) (i Int)) (! (= (sidx o i) (+ o i)) :pattern ((sidx o i)))))
`

func q(s string) string {
	if strings.ContainsAny(s, "|\\") {
		s = strings.NewReplacer("|", "!", "\\", "!").Replace(s)
	}
	return "|" + s + "|"
}

func shortType(t types.Type) string {
	s := types.TypeString(t, func(p *types.Package) string {
		path := p.Path()
		path = strings.TrimPrefix(path, repoModule+"/")
		return path
	})
	return s
}

func (u *Unit) fresh(prefix string) string {
	u.nfresh++
	return fmt.Sprintf("%s!%d", prefix, u.nfresh)
}

func (u *Unit) emit(line string) { u.script = append(u.script, line) }

func (u *Unit) declare(name, sort string) {
	if u.declSeen[name] {
		return
	}
	u.declSeen[name] = true
	u.decls = append(u.decls, fmt.Sprintf("(declare-const %s %s)", name, sort))
}

func (u *Unit) declareFun(name string, args []string, res string) {
	if u.declSeen[name] {
		return
	}
	u.declSeen[name] = true
	u.decls = append(u.decls, fmt.Sprintf("(declare-fun %s (%s) %s)", name, strings.Join(args, " "), res))
}

func (u *Unit) declRaw(key, line string) {
	if u.declSeen[key] {
		return
	}
	u.declSeen[key] = true
	u.decls = append(u.decls, line)
}

// freshConst declares a fresh constant in the script (not the global decl section), so that
// obligations generated earlier do not see it (harmless either way).
func (u *Unit) freshConst(prefix, sort string) string {
	n := q(u.fresh(prefix))
	u.emit(fmt.Sprintf("(declare-const %s %s)", n, sort))
	return n
}

// define introduces a named definition for a term.
func (u *Unit) define(prefix, sort, term string) string {
	if len(term) < 40 && !strings.Contains(term, "(") {
		return term
	}
	n := q(u.fresh(prefix))
	u.emit(fmt.Sprintf("(define-fun %s () %s %s)", n, sort, term))
	return n
}

// defineAtom introduces a constant equal to term (an atomic symbol, usable inside patterns).
func (u *Unit) defineAtom(prefix, sort, term string) string {
	if len(term) < 40 && !strings.Contains(term, "(") {
		return term
	}
	n := u.freshConst(prefix, sort)
	u.emit(fmt.Sprintf("(assert (= %s %s))", n, term))
	return n
}

var numeralRe = regexp.MustCompile(`^(\d+|\(- \d+\))$`)

// divTerm / modTerm: Go's truncating division. A symbolic divisor makes the term nonlinear, which
// the solvers handle badly; it is then an uninterpreted function with sign and magnitude axioms
// (tdivn), the same symbol on the code side and the spec side.
func divTerm(a, b string) string {
	if numeralRe.MatchString(b) {
		return fmt.Sprintf("(tdiv %s %s)", a, b)
	}
	return fmt.Sprintf("(tdivn %s %s)", a, b)
}

// mulTerm: a product of two symbolic factors is nonlinear; it becomes the uninterpreted imul with
// commutativity, sign and monotonicity axioms (same symbol on the code side and the spec side).
func mulTerm(a, b string) string {
	if numeralRe.MatchString(a) || numeralRe.MatchString(b) {
		return fmt.Sprintf("(* %s %s)", a, b)
	}
	return fmt.Sprintf("(imul %s %s)", a, b)
}

func modTerm(a, b string) string {
	if numeralRe.MatchString(b) {
		return fmt.Sprintf("(tmod %s %s)", a, b)
	}
	return fmt.Sprintf("(tmodn %s %s)", a, b)
}

func (u *Unit) assume(term string) {
	if term == "true" {
		return
	}
	line := "(assert " + term + ")"
	if u.assumedAt == nil {
		u.assumedAt = map[string]int{}
	}
	if idx, ok := u.assumedAt[line]; ok && idx < len(u.script) && u.script[idx] == line {
		return
	}
	u.assumedAt[line] = len(u.script)
	u.emit(line)
}

// ------------------------------------------------------------------ sorts

func isInteger(t types.Type) bool {
	b, ok := t.Underlying().(*types.Basic)
	return ok && b.Info()&types.IsInteger != 0
}

func isBoolean(t types.Type) bool {
	b, ok := t.Underlying().(*types.Basic)
	return ok && b.Info()&types.IsBoolean != 0
}

func isString(t types.Type) bool {
	b, ok := t.Underlying().(*types.Basic)
	return ok && b.Info()&types.IsString != 0
}

func isFloat(t types.Type) bool {
	b, ok := t.Underlying().(*types.Basic)
	return ok && b.Info()&(types.IsFloat|types.IsComplex) != 0
}

func isPointerLike(t types.Type) bool {
	switch t.Underlying().(type) {
	case *types.Pointer, *types.Map, *types.Chan, *types.Signature:
		return true
	}
	if b, ok := t.Underlying().(*types.Basic); ok && (b.Kind() == types.UnsafePointer || b.Kind() == types.UntypedNil) {
		return true
	}
	return false
}

// mathInt is the type used for mathematical integers in specs.
var mathInt = types.NewNamed(types.NewTypeName(0, nil, "mathint", nil), types.Typ[types.Int], nil)

func intBounds(t types.Type) (lo, hi *big.Int, ok bool) {
	if t == mathInt {
		return nil, nil, false
	}
	b, isB := t.Underlying().(*types.Basic)
	if !isB || b.Info()&types.IsInteger == 0 {
		return nil, nil, false
	}
	one := big.NewInt(1)
	bits := uint(64)
	signed := true
	switch b.Kind() {
	case types.Int8:
		bits = 8
	case types.Int16:
		bits = 16
	case types.Int32:
		bits = 32
	case types.Int64, types.Int:
		bits = 64
	case types.Uint8:
		bits, signed = 8, false
	case types.Uint16:
		bits, signed = 16, false
	case types.Uint32:
		bits, signed = 32, false
	case types.Uint64, types.Uint, types.Uintptr:
		bits, signed = 64, false
	case types.UntypedInt, types.UntypedRune:
		return nil, nil, false
	}
	if signed {
		hi = new(big.Int).Sub(new(big.Int).Lsh(one, bits-1), one)
		lo = new(big.Int).Neg(new(big.Int).Lsh(one, bits-1))
	} else {
		lo = big.NewInt(0)
		hi = new(big.Int).Sub(new(big.Int).Lsh(one, bits), one)
	}
	return lo, hi, true
}

func smtInt(n *big.Int) string {
	if n.Sign() < 0 {
		return "(- " + new(big.Int).Neg(n).String() + ")"
	}
	return n.String()
}

func (u *Unit) inRange(term string, t types.Type) string {
	lo, hi, ok := intBounds(t)
	if !ok {
		return "true"
	}
	return fmt.Sprintf("(and (<= %s %s) (<= %s %s))", smtInt(lo), term, term, smtInt(hi))
}

func (u *Unit) wrap(term string, t types.Type) string {
	lo, hi, ok := intBounds(t)
	if !ok {
		return term
	}
	if lo.Sign() == 0 {
		m := new(big.Int).Add(hi, big.NewInt(1))
		return fmt.Sprintf("(wrapu %s %s)", term, m.String())
	}
	h := new(big.Int).Add(hi, big.NewInt(1))
	return fmt.Sprintf("(wraps %s %s)", term, h.String())
}

func (u *Unit) sortOf(t types.Type) string {
	if t == nil {
		return "Int"
	}
	if t == mathInt {
		return "Int"
	}
	if t == contentType {
		u.declRaw("sort$Content", "(declare-sort Content 0)")
		return "Content"
	}
	if gm := u.eng.isGhostMap(t); gm != nil {
		return "(Array " + u.sortOf(gm.Key()) + " " + u.sortOf(gm.Elem()) + ")"
	}
	switch tt := t.Underlying().(type) {
	case *types.Basic:
		switch {
		case tt.Info()&types.IsBoolean != 0:
			return "Bool"
		case tt.Info()&types.IsInteger != 0:
			return "Int"
		case tt.Info()&types.IsString != 0:
			return "Str"
		case tt.Info()&types.IsFloat != 0:
			return "Real"
		}
		return "Int"
	case *types.Pointer, *types.Map, *types.Chan, *types.Signature:
		return "Int"
	case *types.Slice:
		return "Slice"
	case *types.Interface:
		return "Iface"
	case *types.Array:
		return "(Array Int " + u.sortOf(tt.Elem()) + ")"
	case *types.Struct:
		return u.structSort(t, tt)
	case *types.Tuple:
		return "Int"
	case *types.TypeParam:
		return "Int"
	}
	return "Int"
}

func (u *Unit) structName(t types.Type) string {
	return "S$" + shortType(t)
}

func (u *Unit) structSort(t types.Type, st *types.Struct) string {
	// identical underlying struct types of different names get different datatypes
	name := q(u.structName(t))
	if u.sortSeen[name] {
		return name
	}
	u.sortSeen[name] = true
	var fields []string
	for i := 0; i < st.NumFields(); i++ {
		fs := u.sortOf(st.Field(i).Type())
		fields = append(fields, fmt.Sprintf("(%s %s)", u.fieldAcc(t, i), fs))
	}
	ghost := u.ghostFields(t)
	for _, g := range ghost {
		fields = append(fields, fmt.Sprintf("(%s %s)", q(u.structName(t)+"$"+g.name), u.sortOf(g.ty)))
	}
	u.sorts = append(u.sorts, fmt.Sprintf("(declare-datatypes ((%s 0)) (((%s %s))))", name, u.structCtor(t), strings.Join(fields, " ")))
	return name
}

func (u *Unit) structCtor(t types.Type) string { return q("mk$" + shortType(t)) }
func (u *Unit) fieldAcc(t types.Type, i int) string {
	st := t.Underlying().(*types.Struct)
	return q(u.structName(t) + "$" + st.Field(i).Name() + fmt.Sprintf("#%d", i))
}

type ghostField struct {
	name string
	ty   types.Type
}

func (u *Unit) ghostFields(t types.Type) []ghostField {
	n, ok := t.(*types.Named)
	if !ok || n.Obj().Pkg() == nil {
		return nil
	}
	m := u.eng.specs.GhostFlds[n.Obj().Pkg().Path()+"."+n.Obj().Name()]
	if m == nil {
		return nil
	}
	var names []string
	for k := range m {
		names = append(names, k)
	}
	sort.Strings(names)
	var out []ghostField
	for _, k := range names {
		rp := n.Obj().Pkg()
		if dp := u.eng.specs.GhostDeclPkg[n.Obj().Pkg().Path()+"."+n.Obj().Name()][k]; dp != "" {
			if tp := u.eng.typesPkg(dp); tp != nil {
				rp = tp
			}
		}
		ty, err := u.resolveType(m[k], rp)
		if err != nil {
			panic(err)
		}
		out = append(out, ghostField{k, ty})
	}
	return out
}

func (u *Unit) zeroOf(t types.Type) string {
	if t == mathInt {
		return "0"
	}
	if gm := u.eng.isGhostMap(t); gm != nil {
		return fmt.Sprintf("((as const %s) %s)", u.sortOf(t), u.zeroOf(gm.Elem()))
	}
	switch tt := t.Underlying().(type) {
	case *types.Basic:
		switch {
		case tt.Info()&types.IsBoolean != 0:
			return "false"
		case tt.Info()&types.IsString != 0:
			return "str.empty"
		case tt.Info()&types.IsFloat != 0:
			return "0.0"
		}
		return "0"
	case *types.Slice:
		return "(mk-slice 0 0 0 0)"
	case *types.Interface:
		return "(mk-iface 0 0)"
	case *types.Array:
		return fmt.Sprintf("((as const %s) %s)", u.sortOf(t), u.zeroOf(tt.Elem()))
	case *types.Struct:
		u.sortOf(t)
		var parts []string
		for i := 0; i < tt.NumFields(); i++ {
			parts = append(parts, u.zeroOf(tt.Field(i).Type()))
		}
		for _, g := range u.ghostFields(t) {
			parts = append(parts, u.zeroOf(g.ty))
		}
		if len(parts) == 0 {
			return u.structCtor(t)
		}
		return "(" + u.structCtor(t) + " " + strings.Join(parts, " ") + ")"
	}
	return "0"
}

// wfValue returns a well-formedness predicate for a value of Go type t (ranges of integers, slice
// header sanity), to be assumed for loaded/havoced values.
func (u *Unit) wfValue(term string, t types.Type, depth int) string {
	if t == nil || t == mathInt || u.eng.isGhostMap(t) != nil {
		return "true"
	}
	switch tt := t.Underlying().(type) {
	case *types.Basic:
		if tt.Info()&types.IsInteger != 0 {
			return u.inRange(term, t)
		}
		return "true"
	case *types.Slice:
		return fmt.Sprintf("(and (<= 0 (s.off %[1]s)) (<= 0 (s.len %[1]s)) (<= (s.len %[1]s) (s.cap %[1]s)) (<= (s.cap %[1]s) %[2]s) (<= (s.off %[1]s) %[2]s) (>= (s.base %[1]s) 0) (=> (= (s.base %[1]s) 0) (= (s.cap %[1]s) 0)))", term, maxSliceLen)
	case *types.Pointer, *types.Map:
		return fmt.Sprintf("(>= %s 0)", term)
	case *types.Interface:
		return fmt.Sprintf("(and (>= (i.tag %[1]s) 0) (=> (= (i.tag %[1]s) 0) (= (i.val %[1]s) 0)))", term)
	case *types.Struct:
		if depth > 2 {
			return "true"
		}
		u.sortOf(t)
		var parts []string
		for i := 0; i < tt.NumFields(); i++ {
			p := u.wfValue(fmt.Sprintf("(%s %s)", u.fieldAcc(t, i), term), tt.Field(i).Type(), depth+1)
			if p != "true" {
				parts = append(parts, p)
			}
		}
		if len(parts) == 0 {
			return "true"
		}
		if len(parts) == 1 {
			return parts[0]
		}
		return "(and " + strings.Join(parts, " ") + ")"
	case *types.Array:
		// array values are normalised: zero outside [0,N); integer elements are in range
		zero := u.zeroOf(tt.Elem())
		rng := "true"
		if lo, hi, ok := intBounds(tt.Elem()); ok {
			rng = fmt.Sprintf("(and (<= %s (select %s wfi)) (<= (select %s wfi) %s))", smtInt(lo), term, term, smtInt(hi))
		}
		return fmt.Sprintf("(forall ((wfi Int)) (! (and %s (=> (or (< wfi 0) (>= wfi %d)) (= (select %s wfi) %s))) :pattern ((select %s wfi))))", rng, tt.Len(), term, zero, term)
	}
	return "true"
}

func (u *Unit) constTerm(c constant.Value, t types.Type) string {
	switch c.Kind() {
	case constant.Bool:
		if constant.BoolVal(c) {
			return "true"
		}
		return "false"
	case constant.Int:
		n, _ := new(big.Int).SetString(c.ExactString(), 10)
		if n == nil {
			return "0"
		}
		return smtInt(n)
	case constant.String:
		return u.strLit(constant.StringVal(c))
	case constant.Float:
		f, _ := constant.Float64Val(c)
		return fmt.Sprintf("%f", f)
	}
	return "0"
}

func (u *Unit) strLit(s string) string {
	if s == "" {
		return "str.empty"
	}
	if n, ok := u.strLits[s]; ok {
		return n
	}
	n := q(fmt.Sprintf("strlit$%d", len(u.strLits)))
	u.strLits[s] = n
	u.decls = append(u.decls, fmt.Sprintf("(declare-const %s Str)", n))
	u.decls = append(u.decls, fmt.Sprintf("(assert (= (strlen %s) %d))", n, len(s)))
	return n
}

func (u *Unit) strLitAxioms() string {
	if len(u.strLits) < 1 {
		return ""
	}
	var names []string
	for _, n := range u.strLits {
		names = append(names, n)
	}
	sort.Strings(names)
	names = append(names, "str.empty")
	return "(assert (distinct " + strings.Join(names, " ") + "))\n"
}

// typeTag gives a distinct positive integer per dynamic type.
func (u *Unit) typeTag(t types.Type) string {
	key := "tag$" + shortType(t)
	n := q(key)
	if !u.declSeen[n] {
		u.declSeen[n] = true
		id := u.eng.typeID(t)
		u.decls = append(u.decls, fmt.Sprintf("(define-fun %s () Int %d)", n, id))
	}
	return n
}

// box/unbox for non-pointer dynamic values in interfaces
func (u *Unit) boxFns(t types.Type) (box, unbox string) {
	s := u.sortOf(t)
	box = q("box$" + shortType(t))
	unbox = q("unbox$" + shortType(t))
	if !u.declSeen[box] {
		u.declSeen[box] = true
		u.decls = append(u.decls, fmt.Sprintf("(declare-fun %s (%s) Int)", box, s))
		u.decls = append(u.decls, fmt.Sprintf("(declare-fun %s (Int) %s)", unbox, s))
		u.decls = append(u.decls, fmt.Sprintf("(assert (forall ((x %s)) (! (= (%s (%s x)) x) :pattern ((%s x)))))", s, unbox, box, box))
		u.decls = append(u.decls, fmt.Sprintf("(assert (forall ((x %s)) (! (> (%s x) 0) :pattern ((%s x)))))", s, box, box))
	}
	return
}

// ------------------------------------------------------------------ heap components

// canonStruct: named struct types defined from one another (type A B) share one underlying
// *types.Struct; pointers to them may be converted into each other, so their heap components
// must be the same. The first type seen for an underlying struct names the components.
func (u *Unit) canonStruct(t types.Type) types.Type {
	st, ok := t.Underlying().(*types.Struct)
	if !ok {
		return t
	}
	if _, named := t.(*types.Named); !named {
		return t
	}
	if c, ok := u.eng.canonStructs[st]; ok {
		return c
	}
	u.eng.canonStructs[st] = t
	return t
}

func (u *Unit) fieldComp(structT types.Type, field string) (name, sort string) {
	structT = u.canonStruct(structT)
	name = "H$" + shortType(structT) + "$" + field
	if s, ok := u.heapSorts[name]; ok {
		return name, s
	}
	var ft types.Type
	if st, isS := structT.Underlying().(*types.Struct); isS {
		for i := 0; i < st.NumFields(); i++ {
			if st.Field(i).Name() == field {
				ft = st.Field(i).Type()
			}
		}
	}
	if ft == nil {
		for _, g := range u.ghostFields(structT) {
			if g.name == field {
				ft = g.ty
			}
		}
	}
	if ft == nil {
		panic("no field " + field + " in " + shortType(structT))
	}
	if isFlattened(ft) {
		panic("fieldComp on flattened field " + field + " of " + shortType(structT))
	}
	sort = "(Array Int " + u.sortOf(ft) + ")"
	u.heapSorts[name] = sort
	u.heapKinds[name] = "field"
	u.heapTypes[name] = ft
	return
}

// isFlattened: struct- and array-typed fields of heap objects live at derived references
// (sub$S$f ref), so that interior pointers to them are first-class values.
func isFlattened(ft types.Type) bool {
	switch ft.Underlying().(type) {
	case *types.Struct, *types.Array:
		return true
	}
	return false
}

// subRef returns the derived reference of a struct/array-typed field of the object at ref.
func (u *Unit) subRef(structT types.Type, field string, ref string) string {
	structT = u.canonStruct(structT)
	fn := q("sub$" + shortType(structT) + "$" + field)
	if !u.declSeen[fn] {
		u.declSeen[fn] = true
		par := q("par$" + shortType(structT) + "$" + field)
		id := u.eng.typeID2("sub$" + shortType(structT) + "$" + field)
		u.decls = append(u.decls, fmt.Sprintf("(declare-fun %s (Int) Int)", fn))
		u.decls = append(u.decls, fmt.Sprintf("(declare-fun %s (Int) Int)", par))
		u.decls = append(u.decls, fmt.Sprintf("(assert (forall ((r Int)) (! (and (= (%s (%s r)) r) (= (refkind (%s r)) %d) (> (%s r) 0) (= (refroot (%s r)) (refroot r))) :pattern ((%s r)))))", par, fn, fn, id, fn, fn, fn))
	}
	return fmt.Sprintf("(%s %s)", fn, ref)
}

// structObjTerm assembles the value of the struct object at ref from the heap (hf gives the
// current version of a component).
func (u *Unit) structObjTerm(hf func(string) string, ref string, structT types.Type) string {
	u.sortOf(structT)
	s := structT.Underlying().(*types.Struct)
	var parts []string
	for i := 0; i < s.NumFields(); i++ {
		ft := s.Field(i).Type()
		if isFlattened(ft) {
			sr := u.subRef(structT, s.Field(i).Name(), ref)
			if at, ok := ft.Underlying().(*types.Array); ok {
				comp, _ := u.elemComp(at.Elem())
				parts = append(parts, fmt.Sprintf("(select %s %s)", hf(comp), sr))
			} else {
				parts = append(parts, u.structObjTerm(hf, sr, ft))
			}
			continue
		}
		comp, _ := u.fieldComp(structT, s.Field(i).Name())
		parts = append(parts, fmt.Sprintf("(select %s %s)", hf(comp), ref))
	}
	for _, g := range u.ghostFields(structT) {
		comp, _ := u.fieldComp(structT, g.name)
		parts = append(parts, fmt.Sprintf("(select %s %s)", hf(comp), ref))
	}
	if len(parts) == 0 {
		return u.structCtor(structT)
	}
	return "(" + u.structCtor(structT) + " " + strings.Join(parts, " ") + ")"
}

func (u *Unit) elemComp(elemT types.Type) (name, sort string) {
	name = "E$" + shortType(elemT)
	if s, ok := u.heapSorts[name]; ok {
		return name, s
	}
	sort = "(Array Int (Array Int " + u.sortOf(elemT) + "))"
	u.heapSorts[name] = sort
	u.heapKinds[name] = "elem"
	u.heapTypes[name] = elemT
	return
}

func (u *Unit) cellComp(t types.Type) (name, sort string) {
	// pointers to named basic types convert to pointers to their underlying type: one component
	if b, ok := t.Underlying().(*types.Basic); ok {
		t = b
	}
	name = "C$" + shortType(t)
	if s, ok := u.heapSorts[name]; ok {
		return name, s
	}
	sort = "(Array Int " + u.sortOf(t) + ")"
	u.heapSorts[name] = sort
	u.heapKinds[name] = "cell"
	u.heapTypes[name] = t
	return
}

func (u *Unit) mapComps(mt *types.Map) (pres, val, ln string) {
	base := shortType(mt)
	pres, val, ln = "MP$"+base, "MV$"+base, "ML$"+base
	if _, ok := u.heapSorts[pres]; !ok {
		ks := u.sortOf(mt.Key())
		u.heapSorts[pres] = "(Array Int (Array " + ks + " Bool))"
		u.heapSorts[val] = "(Array Int (Array " + ks + " " + u.sortOf(mt.Elem()) + "))"
		u.heapSorts[ln] = "(Array Int Int)"
		u.heapKinds[pres], u.heapKinds[val], u.heapKinds[ln] = "map", "map", "map"
	}
	return
}

func (u *Unit) globalComp(pkgPath, name string, t types.Type) (string, string) {
	n := "G$" + strings.TrimPrefix(pkgPath, repoModule+"/") + "." + name
	if s, ok := u.heapSorts[n]; ok {
		return n, s
	}
	s := u.sortOf(t)
	u.heapSorts[n] = s
	u.heapKinds[n] = "global"
	return n, s
}

// heapTyping: every value held in a version of a heap component is a well-formed value of its Go
// type (integer ranges, slice headers). Stores preserve this; it is assumed for the entry version
// and for every havoced version, so that specifications reading fields see typed values too.
func (u *Unit) heapTyping(comp, term string) string {
	ty, ok := u.heapTypes[comp]
	if !ok {
		return ""
	}
	switch u.heapKinds[comp] {
	case "field", "cell":
		sel := fmt.Sprintf("(select %s hr)", term)
		wf := u.wfValue(sel, ty, 1)
		if wf == "true" {
			return ""
		}
		return fmt.Sprintf("(forall ((hr Int)) (! %s :pattern (%s)))", wf, sel)
	case "elem":
		sel := fmt.Sprintf("(select (select %s hr) hk)", term)
		wf := u.wfValue(sel, ty, 1)
		if wf == "true" {
			return ""
		}
		return fmt.Sprintf("(forall ((hr Int) (hk Int)) (! %s :pattern (%s)))", wf, sel)
	}
	return ""
}

// entryClosed: the entry heap is closed under reachability: every reference held by an object that
// is allocated at entry (pointer, slice backing array) is nil or allocated at entry. Objects allocated later (by the function or,
// per their contracts, by callees) are therefore distinct from everything the entry heap holds.
func (u *Unit) entryClosed(comp, term string) string {
	sel, binders, refs := u.refOfComp(comp, term)
	if len(refs) == 0 {
		return ""
	}
	u.ensureAllocComp()
	a0 := q(allocComp + "@0")
	if !u.declSeen[a0] {
		u.declare(a0, u.heapSorts[allocComp])
	}
	var conj []string
	for _, ref := range refs {
		conj = append(conj, fmt.Sprintf("(or (= %s 0) (select %s (refroot %s)))", ref, a0, ref))
	}
	return fmt.Sprintf("(forall %s (! (=> (select %s (refroot hr)) (and %s)) :pattern (%s)))", binders, a0, strings.Join(conj, " "), sel)
}

// refsOfValue: the reference-valued parts of a value of type ty (pointers, slice backing arrays),
// looking into struct values one level at a time.
func (u *Unit) refsOfValue(term string, ty types.Type, depth int) []string {
	switch tt := ty.Underlying().(type) {
	case *types.Pointer:
		return []string{term}
	case *types.Slice:
		return []string{"(s.base " + term + ")"}
	case *types.Struct:
		if depth > 2 {
			return nil
		}
		u.sortOf(ty)
		var out []string
		for i := 0; i < tt.NumFields(); i++ {
			out = append(out, u.refsOfValue(fmt.Sprintf("(%s %s)", u.fieldAcc(ty, i), term), tt.Field(i).Type(), depth+1)...)
		}
		return out
	}
	return nil
}

// refOfComp: for a component holding references (directly or inside struct values), the select
// term, its binders and the references it holds.
func (u *Unit) refOfComp(comp, term string) (sel, binders string, refs []string) {
	ty, ok := u.heapTypes[comp]
	if !ok {
		return "", "", nil
	}
	switch u.heapKinds[comp] {
	case "field", "cell":
		sel, binders = fmt.Sprintf("(select %s hr)", term), "((hr Int))"
	case "elem":
		sel, binders = fmt.Sprintf("(select (select %s hr) hk)", term), "((hr Int) (hk Int))"
	default:
		return "", "", nil
	}
	return sel, binders, u.refsOfValue(sel, ty, 0)
}

const allocComp = "$alloc"

// heldComp: how many times each mutex is held (index 2*ref: write lock, 2*ref+1: read lock). Locks do not
// order anything in this model (each function runs atomically); the counter exists so that a function
// marked safe can be shown to release on every return path what it acquired (a leaked lock hangs the node).
const heldComp = "$held"

func (u *Unit) ensureHeldComp() {
	if _, ok := u.heapSorts[heldComp]; !ok {
		u.heapSorts[heldComp] = "(Array Int Int)"
		u.heapKinds[heldComp] = "held"
	}
}

func (u *Unit) ensureAllocComp() {
	if _, ok := u.heapSorts[allocComp]; !ok {
		u.heapSorts[allocComp] = "(Array Int Bool)"
		u.heapKinds[allocComp] = "alloc"
	}
}

// ------------------------------------------------------------------ script assembly

func (u *Unit) Script(ln int, negGoal string, getModel bool) string {
	return u.ScriptOpt(ln, negGoal, getModel, false)
}

// ScriptOpt: skipOblAssumes drops the assumptions that come from earlier obligations' goals
// (used by vacuity guards, which must not be made unsat by a failing earlier obligation).
func (u *Unit) ScriptOpt(ln int, negGoal string, getModel bool, skipOblAssumes bool) string {
	var b strings.Builder
	b.WriteString(prelude)
	for _, s := range u.sorts {
		b.WriteString(s)
		b.WriteString("\n")
	}
	for _, d := range u.decls {
		b.WriteString(d)
		b.WriteString("\n")
	}
	b.WriteString(u.strLitAxioms())
	for _, name := range u.specOrder {
		b.WriteString(u.specDefs[name].smt)
		b.WriteString("\n")
	}
	for i, l := range u.script[:ln] {
		if skipOblAssumes && u.oblLines[i] {
			continue
		}
		b.WriteString(l)
		b.WriteString("\n")
	}
	if negGoal != "" {
		b.WriteString("(assert " + negGoal + ")\n")
	}
	b.WriteString("(check-sat)\n")
	if getModel {
		b.WriteString("(get-model)\n")
	}
	return b.String()
}

func (u *Unit) addObl(o *Obligation) {
	if u.mute > 0 {
		return
	}
	o.Unit = u
	o.ScriptLn = len(u.script)
	if o.Func == "" {
		o.Func = u.curFunc
	}
	if o.Pos == "" {
		o.Pos = u.curPos
	}
	u.nameCount[o.Name]++
	if c := u.nameCount[o.Name]; c > 1 {
		o.Name = fmt.Sprintf("%s~%d", o.Name, c)
	}
	u.obls = append(u.obls, o)
	// once checked, the goal is assumed downstream
	if o.Expect == "" && o.Goal != "" && o.Fail == "" {
		if u.oblLines == nil {
			u.oblLines = map[int]bool{}
		}
		u.oblLines[len(u.script)] = true
		u.emit("(assert " + o.Goal + ")")
	}
}

func (u *Unit) unsupported(what string) {
	if u.mute > 0 {
		return
	}
	u.addObl(&Obligation{Name: u.Name + "#unsupported", Kind: "unsupported", Fail: what, Clause: what})
}
