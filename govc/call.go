package main

import (
	"fmt"
	"go/types"
	"os"
	"sort"
	"strings"

	"golang.org/x/tools/go/ssa"
)

const maxInlineDepth = 6

func (x *Executor) execCall(fr *Frame, st *State, reach string, call *ssa.CallCommon, instr ssa.Instruction) Val {
	var resTy types.Type
	if v, ok := instr.(ssa.Value); ok {
		resTy = v.Type()
	} else {
		resTy = call.Signature().Results()
	}
	var args []Val
	for _, a := range call.Args {
		args = append(args, x.value(fr, a))
	}
	if b, ok := call.Value.(*ssa.Builtin); ok {
		return x.execBuiltin(fr, st, reach, b, call, args, resTy)
	}
	if call.IsInvoke() {
		recv := x.value(fr, call.Value)
		return x.execInvoke(fr, st, reach, call, recv, args, resTy)
	}
	callee := call.StaticCallee()
	var bind []Val
	if callee == nil {
		fv := x.value(fr, call.Value)
		if fv.Fn != nil {
			callee = fv.Fn
			bind = fv.Bind
		}
	} else if mc, ok := call.Value.(*ssa.MakeClosure); ok {
		fv := x.value(fr, mc)
		bind = fv.Bind
	}
	if callee == nil {
		// a call through a function-typed struct field may have a contract keyed "Struct.field"
		// (written like a method: the first parameter stands for the struct)
		if ld, ok := call.Value.(*ssa.UnOp); ok {
			// a call through a package-level function variable: contract keyed by the variable's name
			if g, ok := ld.X.(*ssa.Global); ok && g.Pkg != nil {
				if con := x.u.eng.specs.Contracts[g.Pkg.Pkg.Path()][g.Name()]; con != nil {
					con.Used = true
					if fr.con != nil && len(fr.con.AtCall) > 0 {
						x.atCallObligationsKey(fr, st, reach, g.Name(), g.Name(), con.Params, args, g.Pkg.Pkg)
					}
					return x.applyContract(fr, st, reach, con, call.Signature(), args, resTy, g.Name())
				}
			}
			if fa, ok := ld.X.(*ssa.FieldAddr); ok {
				if pt, ok := fa.X.Type().Underlying().(*types.Pointer); ok {
					if n, ok := pt.Elem().(*types.Named); ok && n.Obj().Pkg() != nil {
						stt := pt.Elem().Underlying().(*types.Struct)
						key := n.Obj().Name() + "." + stt.Field(fa.Field).Name()
						if con := x.u.eng.specs.Contracts[n.Obj().Pkg().Path()][key]; con != nil {
							con.Used = true
							recv := x.value(fr, fa.X)
							if recv.Addr != nil {
								recv = Val{T: "0", Ty: recv.Ty}
							}
							if fr.con != nil && len(fr.con.AtCall) > 0 {
								x.atCallObligationsKey(fr, st, reach, key, stt.Field(fa.Field).Name(), con.Params, append([]Val{recv}, args...), nil)
							}
							return x.applyContract(fr, st, reach, con, call.Signature(), append([]Val{recv}, args...), resTy, key)
						}
					}
				}
			}
		}
		return x.havocCall(fr, st, reach, "call through function value "+call.Value.Name(), args, resTy)
	}
	return x.callStatic(fr, st, reach, callee, bind, args, resTy)
}

// atCallObligations: the enclosing contract may constrain the arguments of calls to a named callee.
func (x *Executor) atCallObligations(fr *Frame, st *State, reach string, callee *ssa.Function, args []Val) {
	if fr.con == nil || len(fr.con.AtCall) == 0 {
		return
	}
	_, key := funcKey(callee)
	var names []string
	for _, p := range callee.Params {
		names = append(names, p.Name())
	}
	var pkg *types.Package
	if callee.Pkg != nil {
		pkg = callee.Pkg.Pkg
	}
	x.atCallObligationsKey(fr, st, reach, key, callee.Name(), names, args, pkg)
}

func (x *Executor) atCallObligationsKey(fr *Frame, st *State, reach string, key, short string, names []string, args []Val, pkg *types.Package) {
	if fr.con == nil || len(fr.con.AtCall) == 0 {
		return
	}
	cls := fr.con.AtCall[key]
	if cls == nil {
		cls = fr.con.AtCall[short]
	}
	if cls == nil {
		return
	}
	u := x.u
	if u.atMatched == nil {
		u.atMatched = map[string]bool{}
	}
	u.atMatched["call:"+key] = true
	u.atMatched["call:"+short] = true
	vars := map[string]Val{}
	for i, n := range names {
		if i < len(args) && n != "" && n != "_" {
			vars[n] = args[i]
		}
	}
	if fr.fn.Pkg != nil {
		// expressions are written in the caller's package
		pkg = fr.fn.Pkg.Pkg
	}
	env := &Env{x: x, u: u, vars: vars, bound: map[string]Val{}, st: st, old: x.entry, pkg: pkg, localsAfter: x.localsLookupAt(fr, st, x.curTokPos)}
	// the enclosing contract's own parameter names are visible too; outer(x) names the caller's x
	// even when the callee has a parameter of the same name
	outer := map[string]Val{}
	cur := x.localsLookupAt(fr, st, x.curTokPos)
	for i, n := range fr.con.Params {
		if i < len(fr.params) {
			// a parameter is a local variable: its value at the call is meant (old(x) gives the
			// entry value)
			pv := fr.params[i]
			if v, ok := cur(n); ok && fr.top {
				pv = v
			}
			outer[n] = pv
			if _, taken := vars[n]; !taken {
				vars[n] = pv
			}
		}
	}
	env.outerVars = outer
	env.entryVars = map[string]Val{}
	for i, n := range fr.con.Params {
		if i < len(fr.params) {
			if _, shadowed := vars[n]; !shadowed || sameVal(vars[n], outer[n]) {
				env.entryVars[n] = fr.params[i]
			}
		}
	}
	for _, cl := range cls {
		t, err := env.Eval(cl.E)
		o := &Obligation{Name: fmt.Sprintf("%s#atcall:%s:requires%s", fr.prefix, key, clauseLabel(cl)), Kind: "ensures", Clause: "at call of " + key + ": " + cl.Src, For: cl.For}
		if err != nil {
			o.Fail = err.Error()
		} else {
			o.Goal = fmt.Sprintf("(=> %s %s)", reach, t.T)
		}
		u.addObl(o)
	}
}

func funcKey(fn *ssa.Function) (pkgPath, key string) {
	if fn.Pkg != nil {
		pkgPath = fn.Pkg.Pkg.Path()
	} else if fn.Object() != nil && fn.Object().Pkg() != nil {
		pkgPath = fn.Object().Pkg().Path()
	}
	if fn.Signature.Recv() != nil {
		rt := fn.Signature.Recv().Type()
		if pt, ok := rt.(*types.Pointer); ok {
			rt = pt.Elem()
		}
		if n, ok := rt.(*types.Named); ok {
			if n.Obj().Pkg() != nil {
				pkgPath = n.Obj().Pkg().Path()
			}
			return pkgPath, n.Obj().Name() + "." + fn.Name()
		}
	}
	return pkgPath, fn.Name()
}

func (x *Executor) callStatic(fr *Frame, st *State, reach string, callee *ssa.Function, bind, args []Val, resTy types.Type) Val {
	u := x.u
	name := callee.String()
	x.atCallObligations(fr, st, reach, callee, args)
	if callee.Name() == "ssa:deferstack" || strings.HasPrefix(callee.Name(), "ssa:") {
		return Val{T: "0", Ty: resTy}
	}
	// wrappers / bound methods / thunks: go to the underlying declared function where possible
	pkgPath, key := funcKey(callee)
	if con := u.eng.specs.Contracts[pkgPath][key]; con != nil && !con.Inline {
		con.Used = true
		return x.applyContract(fr, st, reach, con, callee.Signature, args, resTy, name)
	}
	if v, ok := x.blanket(fr, st, callee, args, resTy); ok {
		return v
	}
	inRepo := strings.HasPrefix(pkgPath, repoModule)
	if callee.Blocks != nil && (inRepo || callee.Parent() != nil || callee.Synthetic != "") && fr.depth < maxInlineDepth && !x.onStack(callee) {
		// same package (or a closure / wrapper): always; other repo packages: only small leaf helpers
		samePkg := callee.Parent() != nil || callee.Synthetic != "" || (len(x.stack) > 0 && x.stack[0].Pkg != nil && callee.Pkg == x.stack[0].Pkg)
		if x.topCon != nil && x.topCon.Opts["noinline"] != "" && callee.Parent() == nil && callee.Synthetic == "" && !smallLeaf(callee) {
			// the unit treats its un-contracted callees as unknown code
			samePkg = false
		}
		if samePkg || smallLeaf(callee) {
			return x.inline(fr, st, reach, callee, bind, args, resTy)
		}
	}
	return x.havocCall(fr, st, reach, "call to "+name+" (no contract)", args, resTy)
}

// smallLeaf: a short, loop-free function that calls nothing but builtins.
func smallLeaf(fn *ssa.Function) bool {
	n := 0
	for _, b := range fn.Blocks {
		for _, s := range b.Succs {
			if s.Dominates(b) {
				return false // loop
			}
		}
		for _, in := range b.Instrs {
			n++
			if _, ok := in.(*ssa.DebugRef); ok {
				n--
			}
			switch c := in.(type) {
			case *ssa.Go, *ssa.Defer, *ssa.Select, *ssa.Send:
				return false
			case *ssa.Call:
				if _, isB := c.Call.Value.(*ssa.Builtin); isB {
					continue
				}
				callee := c.Call.StaticCallee()
				if callee == nil || callee == fn {
					return false
				}
				if !strings.HasPrefix(callee.Name(), "ssa:") {
					return false
				}
			}
		}
	}
	return n <= 60
}

func (x *Executor) onStack(fn *ssa.Function) bool {
	for _, f := range x.stack {
		if f == fn {
			return true
		}
	}
	return false
}

// blanket frame rules (trusted, listed): logging, metrics, locks modify nothing that is modelled.
func (x *Executor) blanket(fr *Frame, st *State, callee *ssa.Function, args []Val, resTy types.Type) (Val, bool) {
	u := x.u
	pkgPath, key := funcKey(callee)
	rule := ""
	switch {
	case pkgPath == "sync" && (strings.HasPrefix(key, "Mutex.") || strings.HasPrefix(key, "RWMutex.") || strings.HasPrefix(key, "WaitGroup.") || strings.HasPrefix(key, "Once.")):
		if key == "Once.Do" {
			return Val{}, false
		}
		rule = "sync locks are no-ops (each function under contract runs atomically)"
		if os.Getenv("GOVC_DEBUG_LOCK") != "" { fmt.Fprintf(os.Stderr, "[lock] %s args=%d addr=%v T=%q\n", key, len(args), len(args) > 0 && args[0].Addr != nil, func() string { if len(args) > 0 { return args[0].T }; return "" }()) }
		// count acquisitions and releases per mutex (see heldComp)
		if len(args) >= 1 && args[0].Addr == nil && args[0].T != "" {
			d, off := 0, 0
			switch key {
			case "Mutex.Lock", "RWMutex.Lock":
				d = 1
			case "Mutex.Unlock", "RWMutex.Unlock":
				d = -1
			case "RWMutex.RLock":
				d, off = 1, 1
			case "RWMutex.RUnlock":
				d, off = -1, 1
			}
			if d != 0 {
				u.ensureHeldComp()
				h := x.heapGet(st, heldComp)
				ix := fmt.Sprintf("(+ (* 2 %s) %d)", args[0].T, off)
				x.heapSet(st, heldComp, fmt.Sprintf("(store %s %s (+ (select %s %s) %d))", h, ix, h, ix, d))
			}
		}
	case pkgPath == "sync/atomic":
		return Val{}, false
	case strings.HasSuffix(pkgPath, "/lib/log") || pkgPath == "log":
		rule = "logging calls modify nothing that is modelled"
	case strings.HasSuffix(pkgPath, "/lib/metrics") || strings.Contains(pkgPath, "go-kit/kit/metrics") || strings.Contains(pkgPath, "prometheus"):
		rule = "metrics calls modify nothing that is modelled"
	case strings.HasSuffix(pkgPath, "/lib/fail") || strings.Contains(pkgPath, "ebuchman/fail-test"):
		rule = "fail-point calls are no-ops"
	case pkgPath == "fmt" && (strings.HasPrefix(key, "Sprint") || strings.HasPrefix(key, "Print") || key == "Errorf" || strings.HasPrefix(key, "Fprint")):
		rule = "fmt formatting reads its arguments only"
	case pkgPath == "sort" && (key == "Sort" || key == "Stable") && len(args) == 1 && args[0].Boxed != nil:
		if sl, ok := args[0].Boxed.Ty.Underlying().(*types.Slice); ok {
			x.permuteSlice(st, args[0].Boxed.T, sl.Elem())
			u.trusted["sort.Sort permutes the elements of its slice and changes nothing else (Len/Less/Swap of slice-based sort.Interface implementations are assumed to do only that)"] = true
			return Val{T: "0", Ty: resTy}, true
		}
		return Val{}, false
	case pkgPath == "sort" && (key == "Slice" || key == "SliceStable") && len(args) == 2 && args[0].Boxed != nil:
		if sl, ok := args[0].Boxed.Ty.Underlying().(*types.Slice); ok {
			x.permuteSlice(st, args[0].Boxed.T, sl.Elem())
			u.trusted["sort.Slice permutes the elements of its slice and changes nothing else (the less function is assumed free of side effects)"] = true
			return Val{T: "0", Ty: resTy}, true
		}
		return Val{}, false
	case pkgPath == "runtime/debug" || (pkgPath == "runtime" && key == "Stack"):
		rule = "runtime/debug stack dumps modify nothing that is modelled"
	}
	if rule == "" {
		return Val{}, false
	}
	u.trusted["blanket rule: "+rule] = true
	return x.freshResult(st, resTy, pkgPath == "fmt" && key == "Errorf"), true
}

// permuteSlice: the elements of slice s are replaced by a permutation of themselves.
func (x *Executor) permuteSlice(st *State, s string, elem types.Type) {
	u := x.u
	comp, _ := u.elemComp(elem)
	cur := x.heapGet(st, comp)
	nw := x.heapHavoc(st, comp)
	base, off, ln := "(s.base "+s+")", "(s.off "+s+")", "(s.len "+s+")"
	u.assume(fmt.Sprintf("(forall ((r Int)) (! (=> (not (= r %s)) (= (select %s r) (select %s r))) :pattern ((select %s r))))", base, nw, cur, nw))
	u.assume(fmt.Sprintf("(forall ((k Int)) (! (=> (or (< k %[1]s) (>= k (+ %[1]s %[2]s))) (= (select (select %[3]s %[5]s) k) (select (select %[4]s %[5]s) k))) :pattern ((select (select %[3]s %[5]s) k))))", off, ln, nw, cur, base))
	u.assume(fmt.Sprintf("(forall ((i Int)) (! (=> (and (<= 0 i) (< i %[2]s)) (exists ((j Int)) (and (<= 0 j) (< j %[2]s) (= (select (select %[3]s %[5]s) (sidx %[1]s i)) (select (select %[4]s %[5]s) (sidx %[1]s j)))))) :pattern ((select (select %[3]s %[5]s) (sidx %[1]s i)))))", off, ln, nw, cur, base))
	u.assume(fmt.Sprintf("(forall ((j Int)) (! (=> (and (<= 0 j) (< j %[2]s)) (exists ((i Int)) (and (<= 0 i) (< i %[2]s) (= (select (select %[3]s %[5]s) (sidx %[1]s i)) (select (select %[4]s %[5]s) (sidx %[1]s j)))))) :pattern ((select (select %[4]s %[5]s) (sidx %[1]s j)))))", off, ln, nw, cur, base))
}

func (x *Executor) freshResult(st *State, resTy types.Type, nonNilErr bool) Val {
	u := x.u
	mk := func(t types.Type) Val {
		n := u.freshConst("res", u.sortOf(t))
		if wf := u.wfValue(n, t, 0); wf != "true" {
			u.assume(wf)
		}
		v := Val{T: n, Ty: t}
		x.assumeAllocated(st, v)
		if nonNilErr {
			if _, ok := t.Underlying().(*types.Interface); ok {
				u.assume(fmt.Sprintf("(not (= (i.tag %s) 0))", n))
			}
		}
		return v
	}
	if tup, ok := resTy.(*types.Tuple); ok {
		if tup.Len() == 0 {
			return Val{T: "0", Ty: resTy}
		}
		if tup.Len() == 1 {
			return mk(tup.At(0).Type())
		}
		var vs []Val
		for i := 0; i < tup.Len(); i++ {
			vs = append(vs, mk(tup.At(i).Type()))
		}
		return Val{Ty: resTy, Tup: vs}
	}
	return mk(resTy)
}

// havocCall: unknown callee — every heap component becomes unknown, result is fresh.
func (x *Executor) havocCall(fr *Frame, st *State, reach, what string, args []Val, resTy types.Type) Val {
	u := x.u
	if u.mute == 0 {
		u.notes["havoc: "+what+" in "+fr.fn.Name()] = true
	}
	x.escape(st, args...)
	x.havocAll(st)
	return x.freshResult(st, resTy, false)
}

func (x *Executor) havocAll(st *State) {
	u := x.u
	var cs []string
	for c := range u.heapSorts {
		cs = append(cs, c)
	}
	sort.Strings(cs)
	for _, c := range cs {
		if c == heldComp {
			continue // callees are assumed to release what they acquire
		}
		if c == allocComp {
			old := x.heapGet(st, allocComp)
			n := x.heapHavoc(st, c)
			u.assume(fmt.Sprintf("(forall ((r Int)) (! (=> (select %s r) (select %s r)) :pattern ((select %s r))))", old, n, old))
			continue
		}
		if u.heapKinds[c] == "global" && u.eng.isConstGlobal(c) {
			continue
		}
		old := x.heapGet(st, c)
		n := x.heapHavoc(st, c)
		x.protectComp(st, st, c, old, n)
	}
	if len(st.fresh) > 0 {
		u.trusted["objects allocated by the function under contract whose address never reached the heap or un-contracted code are not modified by unknown callees"] = true
	}
	x.recordWriteAll()
	st.ghost = map[string]string{}
}

func (x *Executor) execInvoke(fr *Frame, st *State, reach string, call *ssa.CallCommon, recv Val, args []Val, resTy types.Type) Val {
	u := x.u
	it := types.Unalias(call.Value.Type())
	mname := call.Method.Name()
	if fr.con != nil && len(fr.con.AtCall) > 0 {
		iname := ""
		if n, ok := it.(*types.Named); ok {
			iname = n.Obj().Name()
		}
		sig := call.Signature()
		names := []string{"recv"}
		for i := 0; i < sig.Params().Len(); i++ {
			names = append(names, sig.Params().At(i).Name())
		}
		// the interface method's own contract names the parameters
		if n, ok := it.(*types.Named); ok && n.Obj().Pkg() != nil {
			if con := u.eng.specs.Contracts[n.Obj().Pkg().Path()][n.Obj().Name()+"."+mname]; con != nil && len(con.Params) == len(names) {
				names = append([]string{}, con.Params...)
			}
		}
		x.atCallObligationsKey(fr, st, reach, iname+"."+mname, mname, names, append([]Val{recv}, args...), nil)
	}
	// contract attached to the interface method
	if n, ok := it.(*types.Named); ok && n.Obj().Pkg() != nil {
		con := u.eng.specs.Contracts[n.Obj().Pkg().Path()][n.Obj().Name()+"."+mname]
		// a contract for this interface stated in the package of the function under verification
		// (receiver written pkgalias.Iface) takes precedence there
		if x.topPkg != nil {
			if lc := u.eng.specs.Contracts[x.topPkg.Path()][n.Obj().Name()+"."+mname]; lc != nil && lc.RecvQual != "" {
				if ip := u.findImport(x.topPkg, lc.RecvQual); ip != nil && ip.Path() == n.Obj().Pkg().Path() {
					con = lc
				}
			}
		}
		if con != nil {
			con.Used = true
			x.check(fr, "nil", fmt.Sprintf("(not (= (i.tag %s) 0))", recv.T), reach, "method call on nil interface")
			pre := st.clone()
			res := x.applyContract(fr, st, reach, con, call.Signature(), append([]Val{recv}, args...), resTy, n.Obj().Name()+"."+mname)
			if con.ModSet && !con.ModAll && len(con.Modifies) == 0 {
				x.refineByImplementers(fr, st, pre, reach, n, mname, recv, args, res)
			}
			return res
		}
	}
	// error.Error(), Stringer.String(): pure
	if mname == "Error" || mname == "String" {
		if sig := call.Signature(); sig.Params().Len() == 0 && sig.Results().Len() == 1 && isString(sig.Results().At(0).Type()) {
			u.trusted["blanket rule: Error()/String() methods read only"] = true
			return x.freshResult(st, resTy, false)
		}
	}
	// logger interfaces
	if n, ok := it.(*types.Named); ok && n.Obj().Pkg() != nil {
		p := n.Obj().Pkg().Path()
		if strings.HasSuffix(p, "/lib/log") || strings.Contains(p, "metrics") {
			u.trusted["blanket rule: logging calls modify nothing that is modelled"] = true
			return x.freshResult(st, resTy, false)
		}
	}
	x.check(fr, "nil", fmt.Sprintf("(not (= (i.tag %s) 0))", recv.T), reach, "method call on nil interface")
	return x.havocCall(fr, st, reach, "interface call "+it.String()+"."+mname, append([]Val{recv}, args...), resTy)
}

// refineByImplementers: a call of an interface method whose interface contract is pure ("modifies
// nothing") is refined by the contracts of the types implementing the interface in the interface's own
// package: for each implementer T whose contract for the method is pure as well, the call site proves
// T's preconditions and assumes T's postconditions under the guard "the dynamic type is T" -- exactly
// what a direct call of T's method would do.
func (x *Executor) refineByImplementers(fr *Frame, st, pre *State, reach string, it *types.Named, mname string, recv Val, args []Val, res Val) {
	u := x.u
	pkg := it.Obj().Pkg()
	iface, ok := it.Underlying().(*types.Interface)
	if !ok || pkg == nil {
		return
	}
	cons := u.eng.specs.Contracts[pkg.Path()]
	var keys []string
	for k := range cons {
		keys = append(keys, k)
	}
	sort.Strings(keys)
	assumeReqs := x.topCon != nil && x.topCon.Opts["assumecallreqs"] != ""
	for _, k := range keys {
		con := cons[k]
		if con.Name != mname || con.Recv == "" || con.Aspect > 0 || !con.ModSet || con.ModAll || len(con.Modifies) != 0 {
			continue
		}
		tn, ok := pkg.Scope().Lookup(con.Recv).(*types.TypeName)
		if !ok {
			continue
		}
		if _, isI := tn.Type().Underlying().(*types.Interface); isI {
			continue
		}
		var T types.Type = tn.Type()
		if con.RecvPtr {
			T = types.NewPointer(T)
		}
		if !types.Implements(T, iface) || len(con.Params) != len(args)+1 {
			continue
		}
		con.Used = true
		guard := fmt.Sprintf("(and %s (= (i.tag %s) %s))", reach, recv.T, u.typeTag(T))
		vars := map[string]Val{con.Params[0]: {T: x.unboxIface(recv.T, T), Ty: T}}
		for i, a := range args {
			vars[con.Params[i+1]] = a
		}
		cpkg := u.eng.typesPkg(con.PkgPath)
		env := &Env{x: x, u: u, vars: vars, bound: map[string]Val{}, st: pre, old: pre, pkg: cpkg}
		for _, r := range con.Requires {
			t, err := env.Eval(r.E)
			if assumeReqs {
				if err == nil {
					u.assume(fmt.Sprintf("(=> %s %s)", guard, t.T))
				}
				continue
			}
			o := &Obligation{Name: fmt.Sprintf("%s#call:%s:requires%s@dyn", fr.prefix, con.Key(), clauseLabel(r)), Kind: "requires@call", Clause: r.Src, For: r.For}
			if err != nil {
				o.Fail = err.Error()
			} else {
				o.Goal = fmt.Sprintf("(=> %s %s)", guard, t.T)
			}
			u.addObl(o)
		}
		if len(con.Results) == 1 {
			vars[con.Results[0]] = res
		} else {
			for i, rn := range con.Results {
				if i < len(res.Tup) {
					vars[rn] = res.Tup[i]
				}
			}
		}
		env2 := &Env{x: x, u: u, vars: vars, bound: map[string]Val{}, st: st, old: pre, pkg: cpkg}
		for _, en := range con.Ensures {
			t, err := env2.Eval(en.E)
			if err != nil {
				continue // stated over the implementer's own locals: nothing a caller can use
			}
			u.assume(fmt.Sprintf("(=> %s %s)", guard, t.T))
		}
		if con.Trusted {
			u.trusted["trusted contract: "+strings.TrimPrefix(con.PkgPath, repoModule+"/")+"."+con.Key()] = true
		}
	}
}

// ------------------------------------------------------------------ contracts at call sites

func (x *Executor) applyContract(fr *Frame, st *State, reach string, con *Contract, sig *types.Signature, args []Val, resTy types.Type, what string) Val {
	u := x.u
	cpkg := u.eng.typesPkg(con.PkgPath)
	vars := map[string]Val{}
	for i, n := range con.Params {
		if i < len(args) {
			vars[n] = args[i]
		}
	}
	if len(con.Params) != len(args) {
		u.unsupported(fmt.Sprintf("contract %s binds %d parameters, call has %d", con.Key(), len(con.Params), len(args)))
	}
	pre := st.clone()
	env := &Env{x: x, u: u, vars: vars, bound: map[string]Val{}, st: st, old: pre, pkg: cpkg}
	assumeReqs := x.topCon != nil && x.topCon.Opts["assumecallreqs"] != ""
	for _, r := range con.Requires {
		t, err := env.Eval(r.E)
		if assumeReqs {
			// the unit opts out of checking callee preconditions (they rest on data-structure
			// invariants that are not under contract); they are assumed and listed
			if err == nil {
				u.assume(fmt.Sprintf("(=> %s %s)", reach, t.T))
			}
			u.trusted["callee preconditions assumed (not checked) inside "+x.topName] = true
			continue
		}
		o := &Obligation{Name: fmt.Sprintf("%s#call:%s:requires%s", fr.prefix, con.Key(), clauseLabel(r)), Kind: "requires@call", Clause: r.Src, For: r.For}
		if err != nil {
			o.Fail = err.Error()
		} else {
			o.Goal = fmt.Sprintf("(=> %s %s)", reach, t.T)
		}
		u.addObl(o)
	}
	// a callee that never returns (ensures false) ends the path
	for _, en := range con.Ensures {
		if id, ok := en.E.(*EIdent); ok && id.Name == "false" {
			u.assume(fmt.Sprintf("(not %s)", reach))
			return x.freshResult(st, resTy, false)
		}
	}
	// frame
	if con.ModAll {
		// "modifies *" with a contract: everything may change, including protected objects
		// reachable from the arguments (their new contents are described by the ensures);
		// the callee is trusted not to retain pointers to them beyond the call.
		saved := map[string]types.Type{}
		for _, t := range unionTaint(args...) {
			if ty, ok := st.fresh[t]; ok {
				saved[t] = ty
				delete(st.fresh, t)
				// the callee may write this caller-allocated object: a direct write of its components
				for _, loc := range x.compsOfObject(t, ty) {
					for _, w := range x.wstack {
						w.direct[loc.comp] = true
					}
				}
			}
		}
		x.havocAll(st)
		for t, ty := range saved {
			st.fresh[t] = ty
		}
		if len(saved) > 0 {
			u.trusted["callees with a contract do not retain pointers to caller-allocated arguments beyond the call"] = true
		}
	} else {
		for _, m := range con.Modifies {
			if err := x.havocLoc(env, st, pre, m); err != nil {
				u.addObl(&Obligation{Name: fmt.Sprintf("%s#call:%s:modifies", fr.prefix, con.Key()), Kind: "modifies@call", Fail: err.Error(), Clause: m.String()})
			}
		}
	}
	// allocation: the callee may allocate
	if mayAllocate(sig) || len(con.Modifies) > 0 {
		u.ensureAllocComp()
		old := x.heapGet(st, allocComp)
		n := x.heapHavoc(st, allocComp)
		u.assume(fmt.Sprintf("(forall ((r Int)) (! (=> (select %s r) (select %s r)) :pattern ((select %s r))))", old, n, old))
	}
	res := x.freshResult(st, resTy, false)
	// a result may alias a caller-allocated argument only if it has that argument's type
	// (e.g. AddGas returns its receiver); anything else would have to be stated by the contract
	aliasTaint := func(rt types.Type) []string {
		var from []Val
		for _, a := range args {
			if a.Ty != nil && rt != nil && types.Identical(a.Ty, rt) {
				from = append(from, a)
			}
		}
		return unionTaint(from...)
	}
	res.Taint = aliasTaint(res.Ty)
	for i := range res.Tup {
		res.Tup[i].Taint = aliasTaint(res.Tup[i].Ty)
	}
	// bind results
	if len(res.Tup) > 0 {
		for i, n := range con.Results {
			if i < len(res.Tup) {
				vars[n] = res.Tup[i]
			}
		}
	} else if len(con.Results) == 1 {
		vars[con.Results[0]] = res
		vars["result"] = res
	}
	env2 := &Env{x: x, u: u, vars: vars, bound: map[string]Val{}, st: st, old: pre, pkg: cpkg}
	for _, en := range con.Ensures {
		if exprMentionsFn(en.E, "called", "result", "arg") {
			// a statement about the callee's own calls: proved inside the callee, nothing a caller can use
			continue
		}
		t, err := env2.Eval(en.E)
		if err != nil && !con.Trusted && x.mentionsCalleeLocal(con, en.E) {
			// a postcondition stated over the callee's own locals is proved inside the callee and
			// says nothing a caller can use: it is not assumed here (assuming less is sound)
			continue
		}
		if err != nil {
			u.addObl(&Obligation{Name: fmt.Sprintf("%s#call:%s:ensures%s", fr.prefix, con.Key(), clauseLabel(en)), Kind: "ensures@call", Fail: err.Error(), Clause: en.Src})
			continue
		}
		u.assume(fmt.Sprintf("(=> %s %s)", reach, t.T))
	}
	if con.Trusted {
		u.trusted["trusted contract: "+strings.TrimPrefix(con.PkgPath, repoModule+"/")+"."+con.Key()] = true
	}
	x.heapClosed(st)
	return res
}

// heapClosed: the heap is closed under reachability at every moment: an allocated object holds only
// references to allocated objects (or nil). Emitted after a contracted call for the components the
// unit has touched, against the allocation set as it is then; objects allocated afterwards are
// therefore distinct from everything reachable now.
func (x *Executor) heapClosed(st *State) {
	u := x.u
	if _, ok := u.heapSorts[allocComp]; !ok {
		return
	}
	a := x.heapGet(st, allocComp)
	var cs []string
	for c := range u.heapSorts {
		cs = append(cs, c)
	}
	sort.Strings(cs)
	for _, c := range cs {
		cur, touched := st.heap[c]
		if !touched {
			n := q(c + "@0")
			if !u.declSeen[n] {
				continue
			}
			cur = n
		}
		key := "closed:" + cur + ":" + a
		if u.lemmaAx[key] {
			continue
		}
		sel, binders, refs := u.refOfComp(c, cur)
		if len(refs) == 0 {
			continue
		}
		if u.mute == 0 {
			u.lemmaAx[key] = true // (a muted dry run's script is discarded: emit again later)
		}
		var conj []string
		for _, ref := range refs {
			conj = append(conj, fmt.Sprintf("(or (= %s 0) (select %s (refroot %s)))", ref, a, ref))
		}
		u.emit(fmt.Sprintf("(assert (forall %s (! (=> (select %s (refroot hr)) (and %s)) :pattern (%s))))", binders, a, strings.Join(conj, " "), sel))
	}
}

func mayAllocate(sig *types.Signature) bool {
	for i := 0; i < sig.Results().Len(); i++ {
		switch sig.Results().At(i).Type().Underlying().(type) {
		case *types.Pointer, *types.Slice, *types.Map, *types.Interface, *types.Struct:
			return true
		}
	}
	return false
}

// havocLoc havocs the location(s) denoted by a modifies expression.
func (x *Executor) havocLoc(env *Env, st, pre *State, m Expr) error {
	u := x.u
	// Type.field : whole component
	if sel, ok := m.(*ESel); ok {
		if ty := x.typeNameOf(env, sel.X); ty != nil {
			_, isS := ty.Underlying().(*types.Struct)
			_, isI := ty.Underlying().(*types.Interface)
			if isS || isI {
				if sel.Name == "*" {
					return fmt.Errorf("T.* not supported")
				}
				for _, comp := range x.wholeComps(ty, sel.Name) {
					x.heapHavoc(st, comp)
				}
				return nil
			}
		}
		// p.f : single location (p may itself be a path through nested struct fields)
		penv := &Env{x: x, u: u, vars: env.vars, bound: env.bound, st: pre, old: pre, pkg: env.pkg}
		if ref, sty, ok := x.lvalRef(penv, sel.X); ok {
			fty := fieldType(u, sty, sel.Name)
			if fty == nil {
				return fmt.Errorf("no field %s in %s", sel.Name, sty)
			}
			for _, loc := range x.fieldLocs(sty, sel.Name, ref) {
				elemSort := strings.TrimSuffix(strings.TrimPrefix(u.heapSorts[loc.comp], "(Array Int "), ")")
				nv := u.freshConst("mod$"+sel.Name, elemSort)
				x.heapSet(st, loc.comp, fmt.Sprintf("(store %s %s %s)", x.heapGet(st, loc.comp), loc.ref, nv))
			}
			return nil
		}
		pv, err := penv.Eval(sel.X)
		if err != nil {
			return err
		}
		base := pv.Ty
		if _, isIface := base.Underlying().(*types.Interface); isIface {
			comp, _ := u.fieldComp(base, sel.Name)
			fty := fieldType(u, base, sel.Name)
			nv := u.freshConst("mod$"+sel.Name, u.sortOf(fty))
			x.heapSet(st, comp, fmt.Sprintf("(store %s (i.val %s) %s)", x.heapGet(st, comp), pv.T, nv))
			return nil
		}
		pt, isPtr := base.Underlying().(*types.Pointer)
		if !isPtr {
			return fmt.Errorf("modifies %s: base is not a pointer", m.String())
		}
		if pv.Addr != nil {
			return fmt.Errorf("modifies through symbolic address not supported")
		}
		comp, sortS := u.fieldComp(pt.Elem(), sel.Name)
		_ = sortS
		fty := fieldType(u, pt.Elem(), sel.Name)
		nv := u.freshConst("mod$"+sel.Name, u.sortOf(fty))
		if wf := u.wfValue(nv, fty, 0); wf != "true" {
			u.assume(wf)
		}
		x.heapSet(st, comp, fmt.Sprintf("(store %s %s %s)", x.heapGet(st, comp), pv.T, nv))
		return nil
	}
	// s[*] : all elements of a slice;  m[*]: all entries of a map
	if ix, ok := m.(*EIndex); ok {
		if id, ok := ix.I.(*EIdent); ok && id.Name == "_" {
			sv, err := (&Env{x: x, u: u, vars: env.vars, bound: env.bound, st: pre, old: pre, pkg: env.pkg}).Eval(ix.X)
			if err != nil {
				return err
			}
			switch tt := sv.Ty.Underlying().(type) {
			case *types.Slice:
				comp, _ := u.elemComp(tt.Elem())
				h := x.heapGet(st, comp)
				inner := u.freshConst("modelems", "(Array Int "+u.sortOf(tt.Elem())+")")
				u.assume(fmt.Sprintf("(forall ((k Int)) (! (=> (or (< k (s.off %[1]s)) (>= k (+ (s.off %[1]s) (s.len %[1]s)))) (= (select %[2]s k) (select (select %[3]s (s.base %[1]s)) k))) :pattern ((select %[2]s k))))", sv.T, inner, h))
				x.heapSet(st, comp, fmt.Sprintf("(store %s (s.base %s) %s)", h, sv.T, inner))
				return nil
			case *types.Map:
				pres, val, ln := u.mapComps(tt)
				for _, c := range []string{pres, val, ln} {
					h := x.heapGet(st, c)
					inner := u.freshConst("modmap", strings.TrimSuffix(strings.TrimPrefix(u.heapSorts[c], "(Array Int "), ")"))
					x.heapSet(st, c, fmt.Sprintf("(store %s %s %s)", h, sv.T, inner))
				}
				return nil
			}
			return fmt.Errorf("modifies %s: not a slice or map", m.String())
		}
	}
	// *p : cell
	if un, ok := m.(*EUnary); ok && un.Op == "*" {
		pv, err := (&Env{x: x, u: u, vars: env.vars, bound: env.bound, st: pre, old: pre, pkg: env.pkg}).Eval(un.X)
		if err != nil {
			return err
		}
		pt, isPtr := pv.Ty.Underlying().(*types.Pointer)
		if !isPtr {
			return fmt.Errorf("modifies *%s: not a pointer", un.X.String())
		}
		if pv.Addr != nil {
			// an interior pointer known symbolically: havoc exactly that location
			nv := u.freshConst("modptr", u.sortOf(pv.Addr.Ty))
			if wf := u.wfValue(nv, pv.Addr.Ty, 0); wf != "true" {
				u.assume(wf)
			}
			x.storeAddr(st, pv.Addr, Val{T: nv, Ty: pv.Addr.Ty}, "true")
			return nil
		}
		if stt, isS := pt.Elem().Underlying().(*types.Struct); isS {
			_ = stt
			for _, loc := range x.compsOfObject(pv.T, pt.Elem()) {
				vt := u.heapTypes[loc.comp]
				if u.heapKinds[loc.comp] == "elem" {
					inner := u.freshConst("modarr", "(Array Int "+u.sortOf(vt)+")")
					x.heapSet(st, loc.comp, fmt.Sprintf("(store %s %s %s)", x.heapGet(st, loc.comp), loc.ref, inner))
					continue
				}
				nv := u.freshConst("mod$f", u.sortOf(vt))
				if wf := u.wfValue(nv, vt, 0); wf != "true" {
					u.assume(wf)
				}
				x.heapSet(st, loc.comp, fmt.Sprintf("(store %s %s %s)", x.heapGet(st, loc.comp), loc.ref, nv))
			}
			for _, g := range u.ghostFields(pt.Elem()) {
				comp, _ := u.fieldComp(pt.Elem(), g.name)
				nv := u.freshConst("mod$"+g.name, u.sortOf(g.ty))
				x.heapSet(st, comp, fmt.Sprintf("(store %s %s %s)", x.heapGet(st, comp), pv.T, nv))
			}
			return nil
		}
		if at, isA := pt.Elem().Underlying().(*types.Array); isA {
			comp, _ := u.elemComp(at.Elem())
			inner := u.freshConst("modarr", "(Array Int "+u.sortOf(at.Elem())+")")
			x.heapSet(st, comp, fmt.Sprintf("(store %s %s %s)", x.heapGet(st, comp), pv.T, inner))
			return nil
		}
		comp, _ := u.cellComp(pt.Elem())
		nv := u.freshConst("modcell", u.sortOf(pt.Elem()))
		if wf := u.wfValue(nv, pt.Elem(), 0); wf != "true" {
			u.assume(wf)
		}
		x.heapSet(st, comp, fmt.Sprintf("(store %s %s %s)", x.heapGet(st, comp), pv.T, nv))
		return nil
	}
	// global variable
	if id, ok := m.(*EIdent); ok && env.pkg != nil {
		if v, ok := env.pkg.Scope().Lookup(id.Name).(*types.Var); ok {
			comp, _ := u.globalComp(v.Pkg().Path(), v.Name(), v.Type())
			x.heapHavoc(st, comp)
			return nil
		}
	}
	// []T : whole element heap
	if te, ok := m.(*ETypeExpr); ok && te.T.Kind == "slice" {
		ty, err := u.resolveType(te.T.Elem, env.pkg)
		if err != nil {
			return err
		}
		comp, _ := u.elemComp(ty)
		x.heapHavoc(st, comp)
		return nil
	}
	return fmt.Errorf("unsupported modifies target %s", m.String())
}

// wholeComps: the heap components that make up field f of every object of struct/interface type ty.
func (x *Executor) wholeComps(ty types.Type, f string) []string {
	u := x.u
	fty := fieldType(u, ty, f)
	if fty != nil && isFlattened(fty) {
		var out []string
		if at, ok := fty.Underlying().(*types.Array); ok {
			c, _ := u.elemComp(at.Elem())
			return []string{c}
		}
		st := fty.Underlying().(*types.Struct)
		for i := 0; i < st.NumFields(); i++ {
			out = append(out, x.wholeComps(fty, st.Field(i).Name())...)
		}
		return out
	}
	c, _ := u.fieldComp(ty, f)
	return []string{c}
}

// fieldLocs: the (component, reference) pairs of field f of the struct object at ref.
func (x *Executor) fieldLocs(sty types.Type, f string, ref string) []objLoc {
	u := x.u
	fty := fieldType(u, sty, f)
	if fty != nil && isFlattened(fty) {
		return x.compsOfObject(u.subRef(sty, f, ref), fty)
	}
	c, _ := u.fieldComp(sty, f)
	return []objLoc{{c, ref}}
}

// lvalRef: the reference and struct type of the struct object an expression denotes (a pointer to
// a struct, or a path of struct-valued fields starting at one).
func (x *Executor) lvalRef(env *Env, e Expr) (string, types.Type, bool) {
	u := x.u
	if sel, ok := e.(*ESel); ok {
		if ref, sty, ok := x.lvalRef(env, sel.X); ok {
			if fty := fieldType(u, sty, sel.Name); fty != nil {
				if _, isS := fty.Underlying().(*types.Struct); isS && isFlattened(fty) {
					return u.subRef(sty, sel.Name, ref), fty, true
				}
			}
		}
	}
	v, err := env.Eval(e)
	if err != nil || v.Addr != nil || v.Ty == nil {
		return "", nil, false
	}
	if pt, ok := v.Ty.Underlying().(*types.Pointer); ok {
		if _, isS := pt.Elem().Underlying().(*types.Struct); isS {
			return v.T, pt.Elem(), true
		}
	}
	return "", nil, false
}

// typeNameOf: the named type an expression denotes when it is a type name (T or pkg.T).
func (x *Executor) typeNameOf(env *Env, e Expr) types.Type {
	switch t := e.(type) {
	case *EIdent:
		return x.lookupTypeName(env, t.Name)
	case *ESel:
		if id, ok := t.X.(*EIdent); ok && env.pkg != nil {
			if _, isVar := env.vars[id.Name]; isVar {
				return nil
			}
			if ip := x.u.eng.importByLocalName(env.pkg, id.Name); ip != nil {
				if tn, ok := ip.Scope().Lookup(t.Name).(*types.TypeName); ok {
					return tn.Type()
				}
			}
		}
	}
	return nil
}

func (x *Executor) lookupTypeName(env *Env, name string) types.Type {
	if _, ok := env.vars[name]; ok {
		return nil
	}
	if env.pkg == nil {
		return nil
	}
	if tn, ok := env.pkg.Scope().Lookup(name).(*types.TypeName); ok {
		return tn.Type()
	}
	return nil
}

// ------------------------------------------------------------------ inlining

func (x *Executor) inline(fr *Frame, st *State, reach string, callee *ssa.Function, bind, args []Val, resTy types.Type) Val {
	u := x.u
	x.nframes++
	pkgPath, key := funcKey(callee)
	nf := &Frame{id: x.nframes, fn: callee, vals: map[ssa.Value]Val{}, params: args, bind: bind, depth: fr.depth + 1, safe: fr.safe, noovf: fr.noovf,
		prefix: fr.prefix + "@" + callee.Name()}
	if con := u.eng.specs.Contracts[pkgPath][key]; con != nil && con.Inline {
		nf.con = con
		con.Used = true
	}
	if err := nf.analyse(); err != nil {
		u.unsupported(err.Error())
		return x.freshResult(st, resTy, false)
	}
	x.stack = append(x.stack, callee)
	saveFunc := u.curFunc
	x.execRegion(nf, nil, map[*ssa.BasicBlock][]incoming{callee.Blocks[0]: {{cond: reach, st: st.clone()}}})
	x.stack = x.stack[:len(x.stack)-1]
	u.curFunc = saveFunc
	if len(nf.exits) == 0 {
		// callee never returns (always panics): the path ends; model by an unreachable continuation
		u.assume(fmt.Sprintf("(not %s)", reach))
		return x.freshResult(st, resTy, false)
	}
	var ins []incoming
	for _, e := range nf.exits {
		ins = append(ins, incoming{cond: e.cond, st: e.st})
	}
	m := x.mergeStates(ins)
	// paths on which the callee panicked do not continue: after the call, reach implies one of the exits
	var conds []string
	for _, e := range nf.exits {
		conds = append(conds, e.cond)
	}
	if len(conds) == 1 {
		u.assume(fmt.Sprintf("(=> %s %s)", reach, conds[0]))
	} else {
		u.assume(fmt.Sprintf("(=> %s (or %s))", reach, strings.Join(conds, " ")))
	}
	*st = *m
	// drop callee locals
	for k := range st.locals {
		if k.frame == nf.id {
			delete(st.locals, k)
		}
	}
	// results
	nres := len(nf.exits[0].results)
	if nres == 0 {
		return Val{T: "0", Ty: resTy}
	}
	var outs []Val
	for i := 0; i < nres; i++ {
		same := true
		for _, e := range nf.exits[1:] {
			if !sameVal(e.results[i], nf.exits[0].results[i]) {
				same = false
			}
		}
		first := nf.exits[0].results[i]
		if same {
			outs = append(outs, first)
			continue
		}
		bad := false
		for _, e := range nf.exits {
			if e.results[i].Addr != nil || e.results[i].Fn != nil {
				bad = true
			}
		}
		if bad {
			u.unsupported("inlined callee returns differing symbolic addresses")
			outs = append(outs, Val{T: u.freshConst("ret", u.sortOf(first.Ty)), Ty: first.Ty})
			continue
		}
		t := nf.exits[len(nf.exits)-1].results[i].T
		for j := len(nf.exits) - 2; j >= 0; j-- {
			t = fmt.Sprintf("(ite %s %s %s)", nf.exits[j].cond, nf.exits[j].results[i].T, t)
		}
		var rvs []Val
		for _, e := range nf.exits {
			rvs = append(rvs, e.results[i])
		}
		outs = append(outs, Val{T: u.define("ret$"+callee.Name(), u.sortOf(first.Ty), t), Ty: first.Ty, Taint: unionTaint(rvs...)})
	}
	if nres == 1 {
		return outs[0]
	}
	return Val{Ty: resTy, Tup: outs}
}

func (x *Executor) execDeferred(fr *Frame, st *State, reach string, d deferred) {
	call := d.call
	var resTy types.Type = call.Signature().Results()
	if b, ok := call.Value.(*ssa.Builtin); ok {
		x.execBuiltin(fr, st, reach, b, call, d.args, resTy)
		return
	}
	if call.IsInvoke() {
		x.execInvoke(fr, st, reach, call, d.fnVal, d.args, resTy)
		return
	}
	callee := call.StaticCallee()
	var bind []Val
	if callee == nil && d.fnVal.Fn != nil {
		callee = d.fnVal.Fn
	}
	if d.fnVal.Fn != nil {
		bind = d.fnVal.Bind
	}
	if callee == nil {
		x.havocCall(fr, st, reach, "deferred call through function value", d.args, resTy)
		return
	}
	// recover() inside deferred closures is outside the subset
	if usesRecover(callee) {
		x.u.unsupported("deferred function uses recover")
		return
	}
	x.callStatic(fr, st, reach, callee, bind, d.args, resTy)
}

func usesRecover(fn *ssa.Function) bool {
	for _, b := range fn.Blocks {
		for _, in := range b.Instrs {
			if c, ok := in.(*ssa.Call); ok {
				if bi, ok := c.Call.Value.(*ssa.Builtin); ok && bi.Name() == "recover" {
					return true
				}
			}
		}
	}
	return false
}

// ------------------------------------------------------------------ builtins

func (x *Executor) execBuiltin(fr *Frame, st *State, reach string, b *ssa.Builtin, call *ssa.CallCommon, args []Val, resTy types.Type) Val {
	u := x.u
	intT := types.Typ[types.Int]
	switch b.Name() {
	case "len", "cap":
		a := args[0]
		switch tt := a.Ty.Underlying().(type) {
		case *types.Slice:
			return Val{T: u.define(b.Name(), "Int", fmt.Sprintf("(s.%s %s)", b.Name(), a.T)), Ty: intT}
		case *types.Basic:
			return Val{T: u.define("len", "Int", fmt.Sprintf("(strlen %s)", a.T)), Ty: intT}
		case *types.Map:
			_, _, ln := u.mapComps(tt)
			r := u.define("len", "Int", fmt.Sprintf("(ite (= %s 0) 0 (select %s %s))", a.T, x.heapGet(st, ln), a.T))
			u.assume(fmt.Sprintf("(and (<= 0 %s) (<= %s %s))", r, r, maxSliceLen))
			return Val{T: r, Ty: intT}
		case *types.Array:
			return Val{T: fmt.Sprintf("%d", tt.Len()), Ty: intT}
		case *types.Pointer:
			if at, ok := tt.Elem().Underlying().(*types.Array); ok {
				return Val{T: fmt.Sprintf("%d", at.Len()), Ty: intT}
			}
		case *types.Chan:
			// what a channel holds is decided by other goroutines: an arbitrary non-negative number
			u.notes[chanNote] = true
			r := u.freshConst("chanlen", "Int")
			u.assume(fmt.Sprintf("(and (<= 0 %s) (<= %s %s))", r, r, maxSliceLen))
			return Val{T: r, Ty: intT}
		}
	case "append":
		return x.execAppend(fr, st, reach, args, resTy)
	case "copy":
		return x.execCopy(fr, st, reach, args)
	case "delete":
		mt := args[0].Ty.Underlying().(*types.Map)
		x.mapDelete(st, mt, args[0].T, args[1].T)
		return Val{T: "0", Ty: resTy}
	case "print", "println":
		return Val{T: "0", Ty: resTy}
	case "min", "max":
		t := args[0].T
		for _, a := range args[1:] {
			t = fmt.Sprintf("(i%s %s %s)", b.Name(), t, a.T)
		}
		return Val{T: u.define(b.Name(), "Int", t), Ty: args[0].Ty}
	case "recover":
		u.unsupported("recover")
		return x.freshResult(st, resTy, false)
	case "close":
		// closing a channel is a hand-off like the other channel operations (double close not modelled)
		u.notes[chanNote] = true
		return Val{T: "0", Ty: resTy}
	case "ssa:deferstack":
		return Val{T: "0", Ty: resTy}
	case "ssa:wrapnilchk":
		x.check(fr, "nil", fmt.Sprintf("(not (= %s 0))", args[0].T), reach, "nil receiver in wrapper")
		return args[0]
	}
	u.unsupported("builtin " + b.Name())
	return x.freshResult(st, resTy, false)
}

func (x *Executor) execAppend(fr *Frame, st *State, reach string, args []Val, resTy types.Type) Val {
	u := x.u
	s, t := args[0], args[1]
	sl := resTy.Underlying().(*types.Slice)
	et := sl.Elem()
	es := u.sortOf(et)
	comp, _ := u.elemComp(et)
	var tlen string
	tIsString := isString(t.Ty)
	if tIsString {
		tlen = fmt.Sprintf("(strlen %s)", t.T)
	} else {
		tlen = fmt.Sprintf("(s.len %s)", t.T)
	}
	total := u.define("app.len", "Int", fmt.Sprintf("(+ (s.len %s) %s)", s.T, tlen))
	fits := u.define("app.fits", "Bool", fmt.Sprintf("(and (<= %s (s.cap %s)) (not (= (s.base %s) 0)))", total, s.T, s.T))
	// appending nothing to a slice returns it unchanged; otherwise either in place or a fresh array
	fresh := x.allocRef(st, "append")
	ncap := u.freshConst("app.cap", "Int")
	u.assume(fmt.Sprintf("(and (>= %s %s) (<= %s %s))", ncap, total, ncap, maxSliceLen))
	u.assume(fmt.Sprintf("(<= %s %s)", total, maxSliceLen)) // memory is finite: an append that would exceed the address space panics
	h := x.heapGet(st, comp)
	nbase := u.defineAtom("app.base", "Int", fmt.Sprintf("(ite %s (s.base %s) %s)", fits, s.T, fresh))
	noff := u.defineAtom("app.off", "Int", fmt.Sprintf("(ite %s (s.off %s) 0)", fits, s.T))
	inner := u.freshConst("app.arr", "(Array Int "+es+")")
	// old elements
	u.assume(fmt.Sprintf("(forall ((j Int)) (! (=> (and (<= 0 j) (< j (s.len %[1]s))) (= (select %[2]s (sidx %[3]s j)) (select (select %[4]s (s.base %[1]s)) (sidx (s.off %[1]s) j)))) :pattern ((select %[2]s (sidx %[3]s j)))))", s.T, inner, noff, h))
	// appended elements
	if tIsString {
		u.assume(fmt.Sprintf("(forall ((k Int)) (! (=> (and (<= (s.len %[4]s) k) (< k (+ (s.len %[4]s) %[1]s))) (= (select %[2]s (sidx %[3]s k)) (strat %[5]s (- k (s.len %[4]s))))) :pattern ((select %[2]s (sidx %[3]s k)))))", tlen, inner, noff, s.T, t.T))
	} else {
		u.assume(fmt.Sprintf("(forall ((k Int)) (! (=> (and (<= (s.len %[4]s) k) (< k (+ (s.len %[4]s) %[1]s))) (= (select %[2]s (sidx %[3]s k)) (select (select %[5]s (s.base %[6]s)) (sidx (s.off %[6]s) (- k (s.len %[4]s)))))) :pattern ((select %[2]s (sidx %[3]s k)))))", tlen, inner, noff, s.T, h, t.T))
		// common case: a single appended element, stated without quantifier
		u.assume(fmt.Sprintf("(=> (= %s 1) (= (select %s (sidx %s (s.len %s))) (select (select %s (s.base %s)) (sidx (s.off %s) 0))))", tlen, inner, noff, s.T, h, t.T, t.T))
	}
	// in place: everything else in the backing array is unchanged
	u.assume(fmt.Sprintf("(=> %[1]s (forall ((k Int)) (! (=> (or (< k (+ (s.off %[2]s) (s.len %[2]s))) (>= k (+ (s.off %[2]s) %[3]s))) (= (select %[4]s k) (select (select %[5]s (s.base %[2]s)) k))) :pattern ((select %[4]s k)))))", fits, s.T, total, inner, h))
	x.heapSet(st, comp, fmt.Sprintf("(store %s %s %s)", h, nbase, inner))
	res := u.define("app", "Slice", fmt.Sprintf("(mk-slice %s %s %s (ite %s (s.cap %s) %s))", nbase, noff, total, fits, s.T, ncap))
	return Val{T: res, Ty: resTy}
}

func (x *Executor) execCopy(fr *Frame, st *State, reach string, args []Val) Val {
	u := x.u
	d, s := args[0], args[1]
	sl := d.Ty.Underlying().(*types.Slice)
	et := sl.Elem()
	comp, _ := u.elemComp(et)
	var slen string
	srcStr := isString(s.Ty)
	if srcStr {
		slen = fmt.Sprintf("(strlen %s)", s.T)
	} else {
		slen = fmt.Sprintf("(s.len %s)", s.T)
	}
	n := u.defineAtom("copy.n", "Int", fmt.Sprintf("(imin (s.len %s) %s)", d.T, slen))
	h := x.heapGet(st, comp)
	inner := u.freshConst("copy.arr", "(Array Int "+u.sortOf(et)+")")
	if srcStr {
		u.assume(fmt.Sprintf("(forall ((j Int)) (! (=> (and (<= 0 j) (< j %[1]s)) (= (select %[2]s (sidx (s.off %[3]s) j)) (strat %[4]s j))) :pattern ((select %[2]s (sidx (s.off %[3]s) j)))))", n, inner, d.T, s.T))
	} else {
		u.assume(fmt.Sprintf("(forall ((j Int)) (! (=> (and (<= 0 j) (< j %[1]s)) (= (select %[2]s (sidx (s.off %[3]s) j)) (select (select %[4]s (s.base %[5]s)) (sidx (s.off %[5]s) j)))) :pattern ((select %[2]s (sidx (s.off %[3]s) j)))))", n, inner, d.T, h, s.T))
	}
	u.assume(fmt.Sprintf("(forall ((k Int)) (! (=> (or (< k (s.off %[1]s)) (>= k (+ (s.off %[1]s) %[2]s))) (= (select %[3]s k) (select (select %[4]s (s.base %[1]s)) k))) :pattern ((select %[3]s k))))", d.T, n, inner, h))
	// copy of zero elements (including nil destination) changes nothing
	x.heapSet(st, comp, fmt.Sprintf("(ite (= %s 0) %s (store %s (s.base %s) %s))", n, h, h, d.T, inner))
	return Val{T: n, Ty: types.Typ[types.Int]}
}

// mentionsCalleeLocal: the expression names a local variable of the contract's own function.
func (x *Executor) mentionsCalleeLocal(con *Contract, e Expr) bool {
	fn, err := x.u.eng.FindFunction(con)
	if err != nil || fn == nil {
		return false
	}
	locals := map[string]bool{}
	for _, b := range fn.Blocks {
		for _, in := range b.Instrs {
			if a, ok := in.(*ssa.Alloc); ok && a.Comment != "" {
				locals[a.Comment] = true
			}
		}
	}
	for _, p := range con.Params {
		delete(locals, p)
	}
	for _, r := range con.Results {
		delete(locals, r)
	}
	found := false
	var walk func(e Expr)
	walk = func(e Expr) {
		switch t := e.(type) {
		case *EIdent:
			if locals[t.Name] {
				found = true
			}
		case *ECall:
			for _, a := range t.Args {
				walk(a)
			}
		case *EUnary:
			walk(t.X)
		case *EBinary:
			walk(t.X)
			walk(t.Y)
		case *ESel:
			walk(t.X)
		case *EIndex:
			walk(t.X)
			walk(t.I)
		case *ESlice:
			walk(t.X)
			if t.Lo != nil {
				walk(t.Lo)
			}
			if t.Hi != nil {
				walk(t.Hi)
			}
		case *EQuant:
			walk(t.Body)
		}
	}
	walk(e)
	return found
}
