package main

import (
	"go/token"
	"fmt"
	"go/types"
	"os"
	"sort"
	"strings"

	"golang.org/x/tools/go/ssa"
)

type Val struct {
	T    string
	Ty   types.Type
	Addr *Addr
	Tup  []Val
	Fn   *ssa.Function // statically known function value (closure or function)
	Bind []Val         // closure bindings
	// Taint: refs of objects allocated by the function under verification ("protected" objects)
	// this value may point to or into. Used to decide when such an object escapes.
	Taint []string
	// Boxed: for an interface value built by MakeInterface in this function, the value inside
	Boxed *Val
}

func unionTaint(vs ...Val) []string {
	var out []string
	seen := map[string]bool{}
	for _, v := range vs {
		for _, t := range v.Taint {
			if !seen[t] {
				seen[t] = true
				out = append(out, t)
			}
		}
		for _, b := range v.Bind {
			for _, t := range b.Taint {
				if !seen[t] {
					seen[t] = true
					out = append(out, t)
				}
			}
		}
		for _, e := range v.Tup {
			for _, t := range e.Taint {
				if !seen[t] {
					seen[t] = true
					out = append(out, t)
				}
			}
		}
	}
	return out
}

type pathStep struct {
	field   int // >=0: struct field index
	structT types.Type
	idx     string // array index term when field < 0
	arrT    types.Type
}

type Addr struct {
	Kind   string // local, field, elem, cell, global
	Local  localKey
	Ref    string
	Struct types.Type // field: struct type
	Field  string
	ElemT  types.Type // elem: element type
	Idx    string
	CellT  types.Type
	Global string
	GlobT  types.Type
	Path   []pathStep
	Ty     types.Type // pointee type after path
}

func (a *Addr) extend(step pathStep, ty types.Type) *Addr {
	b := *a
	b.Path = append(append([]pathStep{}, a.Path...), step)
	b.Ty = ty
	return &b
}

type localKey struct {
	alloc *ssa.Alloc
	frame int
}

type deferred struct {
	frame int
	call  *ssa.CallCommon
	args  []Val
	fnVal Val
	cond  string // registration condition ("true" when unconditional)
	instr ssa.Instruction
}

type State struct {
	locals map[localKey]Val
	heap   map[string]string
	defers []deferred
	ghost  map[string]string // unit-level ghost scalars (e.g. range-visited sets)
	// fresh: objects allocated by this function whose address has not escaped (not stored to the
	// heap, not passed to code without a contract). Unknown calls cannot modify them.
	fresh map[string]types.Type
}

func newState() *State {
	return &State{locals: map[localKey]Val{}, heap: map[string]string{}, ghost: map[string]string{}, fresh: map[string]types.Type{}}
}

func (s *State) clone() *State {
	n := newState()
	for k, v := range s.locals {
		n.locals[k] = v
	}
	for k, v := range s.heap {
		n.heap[k] = v
	}
	for k, v := range s.ghost {
		n.ghost[k] = v
	}
	for k, v := range s.fresh {
		n.fresh[k] = v
	}
	n.defers = append([]deferred{}, s.defers...)
	return n
}

type WriteSet struct {
	comps  map[string]bool
	direct map[string]bool // components written by the region itself (stores, contract frames naming locations, contracted calls handed protected objects) rather than only havoced by unknown code
	locals map[localKey]bool
	all    bool
	unprot map[string]bool
	ltaint map[string]bool // protected refs stored into some local inside the region
}

func newWriteSet() *WriteSet {
	return &WriteSet{comps: map[string]bool{}, direct: map[string]bool{}, locals: map[localKey]bool{}, unprot: map[string]bool{}, ltaint: map[string]bool{}}
}

type Executor struct {
	u          *Unit
	wstack     []*WriteSet
	nframes    int
	stack      []*ssa.Function
	entry      *State // entry state of the unit's top function (for old())
	frame      *frameSpec
	reachGuard string
	topCon     *Contract
	topVars    map[string]Val
	topPkg     *types.Package
	topName    string
	curFrame   *Frame
	curTokPos  token.Pos // position of the instruction being executed (lexical lookup of locals in at-call clauses)
	callResults map[string]Val // results of the calls made so far by the top-level function, by callee name
	callReach   map[string]string // path condition under which each of those calls is reached
	callCount   map[string]int
	callArgs    map[string][]Val // arguments of those calls (receiver first)
}

func (x *Executor) recordWrite(comp string) {
	for _, w := range x.wstack {
		w.comps[comp] = true
	}
}
func (x *Executor) recordLocalWrite(k localKey) {
	for _, w := range x.wstack {
		w.locals[k] = true
	}
}

func (x *Executor) recordLocalTaint(v Val) {
	for _, t := range unionTaint(v) {
		for _, w := range x.wstack {
			w.ltaint[t] = true
		}
	}
}

// escape: the objects a value may point into are no longer protected from unknown code.
func (x *Executor) escape(st *State, vs ...Val) {
	for _, t := range unionTaint(vs...) {
		if os.Getenv("GOVC_DEBUG_ESCAPE") != "" {
			if _, ok := st.fresh[t]; ok {
				fmt.Fprintf(os.Stderr, "[escape] %s at %s\n", t, x.u.curPos)
			}
		}
		delete(st.fresh, t)
		for _, w := range x.wstack {
			w.unprot[t] = true
		}
	}
}

func (x *Executor) recordWriteAll() {
	for _, w := range x.wstack {
		w.all = true
	}
}

// heapGet returns the current version of a component in state st (entry version if untouched).
func (x *Executor) heapGet(st *State, comp string) string {
	if v, ok := st.heap[comp]; ok {
		return v
	}
	sortS, ok := x.u.heapSorts[comp]
	if !ok {
		panic("unknown heap component " + comp)
	}
	name := q(comp + "@0")
	if !x.u.declSeen[name] {
		x.u.declare(name, sortS)
		if ax := x.u.heapTyping(comp, name); ax != "" {
			x.u.decls = append(x.u.decls, "(assert "+ax+")")
		}
		if ax := x.u.entryClosed(comp, name); ax != "" {
			x.u.decls = append(x.u.decls, "(assert "+ax+")")
		}
	}
	return name
}

func (x *Executor) heapSet(st *State, comp, term string) {
	sortS := x.u.heapSorts[comp]
	st.heap[comp] = x.u.define(comp+"@", sortS, term)
	x.recordWrite(comp)
	for _, w := range x.wstack {
		w.direct[comp] = true
	}
}

func (x *Executor) heapHavoc(st *State, comp string) string {
	sortS := x.u.heapSorts[comp]
	n := x.u.freshConst(comp+"@h", sortS)
	if ax := x.u.heapTyping(comp, n); ax != "" {
		x.u.emit("(assert " + ax + ")")
	}
	x.unreachableFresh(st, comp, n)
	st.heap[comp] = n
	x.recordWrite(comp)
	return n
}

// mergeStates merges several (cond, state) pairs. conds are edge conditions (mutually exclusive on
// any execution).
func (x *Executor) mergeStates(ins []incoming) *State {
	if len(ins) == 1 {
		return ins[0].st.clone()
	}
	u := x.u
	out := newState()
	// locals
	keys := map[localKey]bool{}
	for _, in := range ins {
		for k := range in.st.locals {
			keys[k] = true
		}
	}
	for k := range keys {
		var vals []Val
		same := true
		var first Val
		have := false
		for _, in := range ins {
			v, ok := in.st.locals[k]
			if !ok {
				v = Val{T: u.zeroOf(k.alloc.Type().(*types.Pointer).Elem()), Ty: k.alloc.Type().(*types.Pointer).Elem()}
			}
			if !have {
				first = v
				have = true
			} else if !sameVal(first, v) {
				same = false
			}
			vals = append(vals, v)
		}
		if same {
			first.Taint = unionTaint(vals...)
			out.locals[k] = first
			continue
		}
		// cannot merge symbolic addresses / closures
		bad := false
		for _, v := range vals {
			if v.Addr != nil || v.Fn != nil || len(v.Tup) > 0 {
				bad = true
			}
		}
		if bad {
			// keep as poisoned value: any later use is flagged
			out.locals[k] = Val{T: "poison", Ty: first.Ty}
			continue
		}
		t := vals[len(vals)-1].T
		for i := len(vals) - 2; i >= 0; i-- {
			t = fmt.Sprintf("(ite %s %s %s)", ins[i].cond, vals[i].T, t)
		}
		out.locals[k] = Val{T: u.define("m$"+k.alloc.Comment, u.sortOf(first.Ty), t), Ty: first.Ty, Taint: unionTaint(vals...)}
	}
	// protected objects: only those protected on every incoming path
	for r, ty := range ins[0].st.fresh {
		all := true
		for _, in := range ins[1:] {
			if _, ok := in.st.fresh[r]; !ok {
				all = false
			}
		}
		if all {
			out.fresh[r] = ty
		}
	}
	// heap
	comps := map[string]bool{}
	for _, in := range ins {
		for c := range in.st.heap {
			comps[c] = true
		}
	}
	var cs []string
	for c := range comps {
		cs = append(cs, c)
	}
	sort.Strings(cs)
	for _, c := range cs {
		var terms []string
		same := true
		for _, in := range ins {
			t := x.heapGet(in.st, c)
			if len(terms) > 0 && terms[0] != t {
				same = false
			}
			terms = append(terms, t)
		}
		if same {
			out.heap[c] = terms[0]
			continue
		}
		t := terms[len(terms)-1]
		for i := len(terms) - 2; i >= 0; i-- {
			if terms[i] == t {
				continue
			}
			t = fmt.Sprintf("(ite %s %s %s)", ins[i].cond, terms[i], t)
		}
		out.heap[c] = u.define(c+"@m", u.heapSorts[c], t)
	}
	// ghost
	gk := map[string]bool{}
	for _, in := range ins {
		for g := range in.st.ghost {
			gk[g] = true
		}
	}
	for g := range gk {
		var terms []string
		same := true
		for _, in := range ins {
			t, ok := in.st.ghost[g]
			if !ok {
				t = ""
			}
			if len(terms) > 0 && terms[0] != t {
				same = false
			}
			terms = append(terms, t)
		}
		if same && terms[0] != "" {
			out.ghost[g] = terms[0]
			continue
		}
		// differing ghost values present on every incoming path: merged like a heap component
		all := true
		for _, t := range terms {
			if t == "" {
				all = false
			}
		}
		if all {
			t := terms[len(terms)-1]
			for i := len(terms) - 2; i >= 0; i-- {
				if terms[i] == t {
					continue
				}
				t = fmt.Sprintf("(ite %s %s %s)", ins[i].cond, terms[i], t)
			}
			out.ghost[g] = t
		}
		// missing on some path: dropped (conservative: a later use re-havocs)
	}
	// defers: must agree
	out.defers = append([]deferred{}, ins[0].st.defers...)
	for _, in := range ins[1:] {
		same := len(in.st.defers) == len(out.defers)
		if same {
			for i := range in.st.defers {
				if in.st.defers[i].instr != out.defers[i].instr || in.st.defers[i].cond != out.defers[i].cond {
					same = false
				}
			}
		}
		if !same {
			// conditional registration: mark by condition
			out.defers = mergeDefers(x, ins)
			break
		}
	}
	return out
}

func mergeDefers(x *Executor, ins []incoming) []deferred {
	// entries are identified by (defer instruction, frame); an entry registered only on some paths
	// gets the disjunction of those paths' conditions as its registration condition
	type key struct {
		in ssa.Instruction
		fr int
	}
	var order []key
	byKey := map[key]deferred{}
	conds := map[key][]string{}
	count := map[key]int{}
	for _, in := range ins {
		seen := map[key]bool{}
		for _, d := range in.st.defers {
			k := key{d.instr, d.frame}
			if seen[k] {
				x.u.unsupported("the same defer statement registered twice on one path (defer in a loop)")
				continue
			}
			seen[k] = true
			if _, ok := byKey[k]; !ok {
				byKey[k] = d
				order = append(order, k)
			}
			c := in.cond
			if d.cond != "true" {
				c = "(and " + in.cond + " " + d.cond + ")"
			}
			conds[k] = append(conds[k], c)
			if d.cond == "true" {
				count[k]++
			}
		}
	}
	var out []deferred
	for _, k := range order {
		d := byKey[k]
		if count[k] == len(ins) {
			d.cond = "true"
		} else {
			d.cond = x.u.define("defcond", "Bool", "(or "+strings.Join(conds[k], " ")+" false)")
		}
		out = append(out, d)
	}
	return out
}

func allTrue(ins []incoming, j int) bool {
	for _, in := range ins {
		if j >= len(in.st.defers) || in.st.defers[j].cond != "true" {
			return false
		}
	}
	return true
}

func sameVal(a, b Val) bool {
	if a.T != b.T || (a.Addr == nil) != (b.Addr == nil) || a.Fn != b.Fn || len(a.Tup) != len(b.Tup) {
		return false
	}
	if a.Addr != nil {
		return addrEq(a.Addr, b.Addr)
	}
	return true
}

func addrEq(a, b *Addr) bool {
	if a.Kind != b.Kind || a.Local != b.Local || a.Ref != b.Ref || a.Field != b.Field || a.Idx != b.Idx || a.Global != b.Global || len(a.Path) != len(b.Path) {
		return false
	}
	for i := range a.Path {
		if a.Path[i].field != b.Path[i].field || a.Path[i].idx != b.Path[i].idx {
			return false
		}
	}
	return true
}

type incoming struct {
	cond string
	st   *State
	from *ssa.BasicBlock
}

// unreachableFresh: objects the function allocated and whose address never escaped are not reachable
// from the heap: no reference held in a havoced component version points into them.
func (x *Executor) unreachableFresh(st *State, comp, n string) {
	if len(st.fresh) == 0 {
		return
	}
	sel, binders, refs := x.u.refOfComp(comp, n)
	if len(refs) == 0 {
		return
	}
	var frs []string
	for r := range st.fresh {
		frs = append(frs, r)
	}
	sort.Strings(frs)
	var conj []string
	for _, r := range frs {
		for _, ref := range refs {
			conj = append(conj, fmt.Sprintf("(not (= (refroot %s) %s))", ref, r))
		}
	}
	x.u.emit(fmt.Sprintf("(assert (forall %s (! (and %s) :pattern (%s))))", binders, strings.Join(conj, " "), sel))
}
