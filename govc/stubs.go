package main

func (eng *Engine) runCensus(c *Census) ExtraCheck {
	return ExtraCheck{Name: "census:" + c.Callee, Ok: true}
}
