package main

func tryReplay(o CheckOpts, ob *Obligation) (string, bool) { return "", false }
func runReplayFile(path string) int                        { return 0 }
func runSelftest(args []string) int                        { return 0 }
func (eng *Engine) runCensus(c *Census) ExtraCheck {
	return ExtraCheck{Name: "census:" + c.Callee, Ok: true}
}
