package main

// Symbolic execution of go/ssa (NaiveForm) functions into SMT with loop cutting.

import (
	"fmt"
	"go/token"
	"go/types"
	"sort"
	"strings"

	"golang.org/x/tools/go/ssa"
)

type Frame struct {
	id      int
	fn      *ssa.Function
	vals    map[ssa.Value]Val
	params  []Val
	bind    []Val
	con     *Contract
	top     bool
	depth   int
	loops   map[*ssa.BasicBlock]*loopInfo
	loopOrd map[*ssa.BasicBlock]int
	rpo     []*ssa.BasicBlock
	rpoIdx  map[*ssa.BasicBlock]int
	exits   []exitPoint
	safe    bool
	noovf   bool
	prefix  string // obligation name prefix
	entrySt *State
}

type exitPoint struct {
	cond    string
	st      *State
	results []Val
}

type loopInfo struct {
	header  *ssa.BasicBlock
	body    map[*ssa.BasicBlock]bool
	parent  *loopInfo
	ord     int
	entrySt *State // state on entry to the loop (for pre() in invariants)
}

func (x *Executor) pos(fn *ssa.Function, p token.Pos) string {
	if !p.IsValid() {
		return ""
	}
	pp := fn.Prog.Fset.Position(p)
	return fmt.Sprintf("%s:%d", strings.TrimPrefix(pp.Filename, "/repo/"), pp.Line)
}

// ------------------------------------------------------------------ CFG analysis

func (fr *Frame) analyse() error {
	fn := fr.fn
	// RPO ignoring unreachable blocks
	seen := map[*ssa.BasicBlock]bool{}
	var post []*ssa.BasicBlock
	var dfs func(b *ssa.BasicBlock)
	dfs = func(b *ssa.BasicBlock) {
		seen[b] = true
		for _, s := range b.Succs {
			if !seen[s] {
				dfs(s)
			}
		}
		post = append(post, b)
	}
	dfs(fn.Blocks[0])
	for i := len(post) - 1; i >= 0; i-- {
		fr.rpo = append(fr.rpo, post[i])
	}
	fr.rpoIdx = map[*ssa.BasicBlock]int{}
	for i, b := range fr.rpo {
		fr.rpoIdx[b] = i
	}
	// back edges: t->h with h dominating t
	fr.loops = map[*ssa.BasicBlock]*loopInfo{}
	for _, t := range fr.rpo {
		for _, h := range t.Succs {
			if h.Dominates(t) {
				li := fr.loops[h]
				if li == nil {
					li = &loopInfo{header: h, body: map[*ssa.BasicBlock]bool{h: true}}
					fr.loops[h] = li
				}
				// natural loop: nodes reaching t without passing through h
				var stack []*ssa.BasicBlock
				if !li.body[t] {
					li.body[t] = true
					stack = append(stack, t)
				}
				for len(stack) > 0 {
					n := stack[len(stack)-1]
					stack = stack[:len(stack)-1]
					for _, p := range n.Preds {
						if !li.body[p] && seen[p] {
							li.body[p] = true
							stack = append(stack, p)
						}
					}
				}
			} else if fr.rpoIdx[h] <= fr.rpoIdx[t] && seen[h] {
				return fmt.Errorf("irreducible control flow in %s", fn.Name())
			}
		}
	}
	// ordinals: by source position of header (RPO order is stable enough and follows source order)
	var hs []*ssa.BasicBlock
	for h := range fr.loops {
		hs = append(hs, h)
	}
	sort.Slice(hs, func(i, j int) bool {
		pi, pj := loopPos(hs[i]), loopPos(hs[j])
		if pi != pj {
			return pi < pj
		}
		return fr.rpoIdx[hs[i]] < fr.rpoIdx[hs[j]]
	})
	for i, h := range hs {
		fr.loops[h].ord = i + 1
	}
	// nesting
	for _, a := range fr.loops {
		for _, b := range fr.loops {
			if a != b && b.body[a.header] && len(b.body) > len(a.body) {
				if a.parent == nil || len(a.parent.body) > len(b.body) {
					a.parent = b
				}
			}
		}
	}
	return nil
}

func loopPos(h *ssa.BasicBlock) token.Pos {
	// smallest valid position among instructions of the header and its body-entry successor
	best := token.NoPos
	consider := func(b *ssa.BasicBlock) {
		for _, in := range b.Instrs {
			if p := in.Pos(); p.IsValid() && (best == token.NoPos || p < best) {
				best = p
			}
			if d, ok := in.(*ssa.DebugRef); ok {
				if p := d.Expr.Pos(); p.IsValid() && (best == token.NoPos || p < best) {
					best = p
				}
			}
		}
	}
	consider(h)
	if best == token.NoPos {
		for _, s := range h.Succs {
			consider(s)
		}
	}
	return best
}

// ------------------------------------------------------------------ region execution

// execRegion executes the blocks of region (a set, nil = whole function) starting from the given
// incoming edges. Edges leaving the region are returned; edges to `header` (the region's loop
// header) from inside are returned separately as back edges.
func (x *Executor) execRegion(fr *Frame, region *loopInfo, start map[*ssa.BasicBlock][]incoming) (exits map[*ssa.BasicBlock][]incoming, backs []incoming) {
	inc := map[*ssa.BasicBlock][]incoming{}
	for b, l := range start {
		inc[b] = append(inc[b], l...)
	}
	exits = map[*ssa.BasicBlock][]incoming{}
	done := map[*ssa.BasicBlock]bool{}
	inRegion := func(b *ssa.BasicBlock) bool { return region == nil || region.body[b] }
	for _, b := range fr.rpo {
		if !inRegion(b) || done[b] {
			continue
		}
		ins := inc[b]
		if len(ins) == 0 {
			continue
		}
		// nested loop header (not the region's own header)
		if li := fr.loops[b]; li != nil && li != region {
			lexits := x.execLoop(fr, li, ins)
			for blk := range li.body {
				done[blk] = true
			}
			for tgt, l := range lexits {
				if inRegion(tgt) {
					if region != nil && tgt == region.header {
						backs = append(backs, l...)
					} else {
						inc[tgt] = append(inc[tgt], l...)
					}
				} else {
					exits[tgt] = append(exits[tgt], l...)
				}
			}
			continue
		}
		done[b] = true
		st := x.mergeStates(ins)
		var conds []string
		for _, in := range ins {
			conds = append(conds, in.cond)
		}
		reach := conds[0]
		if len(conds) > 1 {
			reach = "(or " + strings.Join(conds, " ") + ")"
		}
		reach = x.u.define(fmt.Sprintf("r$%s.%d", fr.fn.Name(), b.Index), "Bool", reach)
		// phis
		for _, in := range b.Instrs {
			phi, ok := in.(*ssa.Phi)
			if !ok {
				break
			}
			x.execPhi(fr, phi, b, ins)
		}
		outs := x.execBlock(fr, b, st, reach)
		for _, o := range outs {
			tgt := o.to
			e := incoming{cond: o.cond, st: o.st, from: b}
			if region != nil && tgt == region.header {
				backs = append(backs, e)
			} else if inRegion(tgt) {
				inc[tgt] = append(inc[tgt], e)
			} else {
				exits[tgt] = append(exits[tgt], e)
			}
		}
	}
	return
}

type outEdge struct {
	to   *ssa.BasicBlock
	cond string
	st   *State
}

func (x *Executor) execPhi(fr *Frame, phi *ssa.Phi, b *ssa.BasicBlock, ins []incoming) {
	u := x.u
	// value per incoming edge
	var terms []string
	var conds []string
	var taintVals []Val
	ok := true
	for _, in := range ins {
		idx := -1
		for i, p := range b.Preds {
			if p == in.from {
				idx = i
			}
		}
		if idx < 0 {
			ok = false
			break
		}
		v := x.value(fr, phi.Edges[idx])
		if v.Addr != nil || v.Fn != nil {
			ok = false
			break
		}
		terms = append(terms, v.T)
		conds = append(conds, in.cond)
		taintVals = append(taintVals, v)
	}
	if !ok || len(terms) == 0 {
		// loop-header phi or unsupported: havoc (it may hold any protected pointer)
		n := u.freshConst("phi", u.sortOf(phi.Type()))
		u.assume(u.wfValue(n, phi.Type(), 0))
		pv := Val{T: n, Ty: phi.Type()}
		if len(ins) > 0 {
			for r := range ins[0].st.fresh {
				pv.Taint = append(pv.Taint, r)
			}
		}
		fr.vals[phi] = pv
		return
	}
	t := terms[len(terms)-1]
	for i := len(terms) - 2; i >= 0; i-- {
		t = fmt.Sprintf("(ite %s %s %s)", conds[i], terms[i], t)
	}
	fr.vals[phi] = Val{T: u.define("phi", u.sortOf(phi.Type()), t), Ty: phi.Type(), Taint: unionTaint(taintVals...)}
}

// execLoop handles a natural loop: invariant on entry, havoc of the write set, invariant
// assumed, body executed once, invariant re-established on back edges.
// mapRangeOf: the range-over-map iterator advanced in the loop header, if any.
func mapRangeOf(li *loopInfo) *ssa.Range {
	for _, in := range li.header.Instrs {
		if nx, ok := in.(*ssa.Next); ok && !nx.IsString {
			if rng, ok := nx.Iter.(*ssa.Range); ok {
				if _, isMap := rng.X.Type().Underlying().(*types.Map); isMap {
					return rng
				}
			}
		}
	}
	return nil
}

func (x *Executor) execLoop(fr *Frame, li *loopInfo, ins []incoming) map[*ssa.BasicBlock][]incoming {
	u := x.u
	stE := x.mergeStates(ins)
	var conds []string
	for _, in := range ins {
		conds = append(conds, in.cond)
	}
	reachE := conds[0]
	if len(conds) > 1 {
		reachE = "(or " + strings.Join(conds, " ") + ")"
	}
	reachE = u.define(fmt.Sprintf("rloop$%s.%d", fr.fn.Name(), li.ord), "Bool", reachE)
	li.entrySt = stE
	// header phis get havoced values (computed in execRegion via execPhi with missing edges)
	var spec *LoopSpec
	if fr.con != nil {
		spec = fr.con.Loops[li.ord]
	}
	if spec == nil {
		spec = &LoopSpec{Ordinal: li.ord}
		if u.mute == 0 {
			u.notes[fmt.Sprintf("loop %d of %s has no invariant (cut with 'true')", li.ord, fr.fn.Name())] = true
		}
	}
	lname := fmt.Sprintf("%s#loop%d", fr.prefix, li.ord)
	// 1. invariant holds on entry
	for _, inv := range spec.Invariants {
		t, err := x.evalLoopClause(fr, li, stE, inv.E)
		o := &Obligation{Name: fmt.Sprintf("%s:inv%s:init", lname, clauseLabel(inv)), Kind: "invariant-init", Clause: inv.Src, For: inv.For}
		if err != nil {
			o.Fail = err.Error()
		} else {
			o.Goal = fmt.Sprintf("(=> %s %s)", reachE, t)
		}
		u.addObl(o)
	}
	// (auto-frame invariants are generated after the write set is known)
	// 2. dry run to collect the write set
	ws := newWriteSet()
	{
		u.mute++
		scriptLen := len(u.script)
		valsCopy := map[ssa.Value]Val{}
		for k, v := range fr.vals {
			valsCopy[k] = v
		}
		nf := u.nfresh
		_ = nf
		x.wstack = append(x.wstack, ws)
		stD := stE.clone()
		// havoc every heap component known so far and syntactically stored locals
		for c := range stD.heap {
			stD.heap[c] = u.freshConst(c+"@dry", u.heapSorts[c])
		}
		for k := range x.syntacticLocalStores(fr, li) {
			if v, ok := stD.locals[k]; ok && v.Addr == nil && v.Fn == nil {
				ty := k.alloc.Type().(*types.Pointer).Elem()
				stD.locals[k] = Val{T: u.freshConst("dry$"+k.alloc.Comment, u.sortOf(ty)), Ty: ty}
			}
		}
		x.execRegion(fr, li, map[*ssa.BasicBlock][]incoming{li.header: {{cond: "true", st: stD}}})
		x.wstack = x.wstack[:len(x.wstack)-1]
		u.script = u.script[:scriptLen]
		fr.vals = valsCopy
		u.mute--
	}
	// propagate to outer collectors
	for c := range ws.comps {
		x.recordWrite(c)
	}
	for k := range ws.locals {
		x.recordLocalWrite(k)
	}
	if ws.all {
		x.recordWriteAll()
	}
	// 2b. automatic frame invariant: locations allocated at function entry and not covered by
	// the modifies clause keep their entry value (checked on entry and on every back edge).
	var frameComps []string
	if x.frame != nil && !x.frame.modAll && !ws.all && x.entry != nil {
		for c := range ws.comps {
			frameComps = append(frameComps, c)
		}
		sort.Strings(frameComps)
		for _, c := range frameComps {
			if goal, ok := x.frameGoal(c, stE); ok {
				u.addObl(&Obligation{Name: fmt.Sprintf("%s:frame:%s:init", lname, c), Kind: "frame", Clause: "loop entry: only declared locations of " + c + " are modified", Goal: fmt.Sprintf("(=> %s %s)", reachE, goal)})
			}
		}
	}
	// 3. havoc write set
	stH := stE.clone()
	// (the visited sets of enclosing map-range loops are not touched by this loop: they are kept;
	// this loop's own set is re-havoced just below, inner loops re-initialise theirs at their range)
	// a range-over-map loop: the set of keys visited so far is arbitrary at the cut (invariants
	// constrain it through the name `visited`)
	if rng := mapRangeOf(li); rng != nil {
		mt := rng.X.Type().Underlying().(*types.Map)
		stH.ghost[fmt.Sprintf("visited$%d$%s", fr.id, rng.Name())] = u.freshConst("visited", fmt.Sprintf("(Array %s Bool)", u.sortOf(mt.Key())))
	}
	for r := range ws.unprot {
		delete(stH.fresh, r)
		x.escape(stH, Val{Taint: []string{r}})
	}
	var cs []string
	for c := range ws.comps {
		cs = append(cs, c)
	}
	if ws.all {
		for c := range u.heapSorts {
			if c == heldComp {
				continue
			}
			if !ws.comps[c] && !(u.heapKinds[c] == "global" && u.eng.isConstGlobal(c)) {
				cs = append(cs, c)
			}
		}
	}
	sort.Strings(cs)
	for _, c := range cs {
		n := u.freshConst(c+"@L", u.heapSorts[c])
		if ax := u.heapTyping(c, n); ax != "" {
			u.emit("(assert " + ax + ")")
		}
		if ws.all && !ws.direct[c] {
			// unknown code in the body cannot reach the objects this function allocated and kept to
			// itself; a component the body writes DIRECTLY is different: the body may have written
			// exactly those objects (decoded[j] = tx), so nothing is kept for it
			x.protectComp(stE, stH, c, x.heapGet(stE, c), n)
		}
		x.unreachableFresh(stH, c, n)
		stH.heap[c] = n
		if c == allocComp {
			old := x.heapGet(stE, allocComp)
			u.assume(fmt.Sprintf("(forall ((r Int)) (! (=> (select %s r) (select %s r)) :pattern ((select %s r))))", old, n, old))
		}
	}
	var lks []localKey
	for k := range ws.locals {
		lks = append(lks, k)
	}
	loopTaint := map[string]bool{}
	for t := range ws.ltaint {
		loopTaint[t] = true
	}
	for k := range ws.locals {
		if v, ok := stE.locals[k]; ok {
			for _, t := range v.Taint {
				loopTaint[t] = true
			}
		}
	}
	for t := range loopTaint {
		x.recordLocalTaint(Val{Taint: []string{t}})
	}
	sort.Slice(lks, func(i, j int) bool {
		if lks[i].alloc.Pos() != lks[j].alloc.Pos() {
			return lks[i].alloc.Pos() < lks[j].alloc.Pos()
		}
		return lks[i].alloc.Name() < lks[j].alloc.Name()
	})
	for _, k := range lks {
		v, ok := stH.locals[k]
		if !ok {
			continue // allocated inside the loop
		}
		if v.Addr != nil || v.Fn != nil {
			u.unsupported("loop assigns a local holding a symbolic address: " + k.alloc.Comment)
			continue
		}
		ty := k.alloc.Type().(*types.Pointer).Elem()
		n := u.freshConst("L$"+k.alloc.Comment, u.sortOf(ty))
		u.assume(u.wfValue(n, ty, 0))
		hv := Val{T: n, Ty: ty}
		if isPointerLike(ty) || u.sortOf(ty) == "Slice" || u.sortOf(ty) == "Iface" || strings.HasPrefix(u.sortOf(ty), "|S$") {
			// it may hold any protected pointer that some local held on entry or received in the loop
			for r := range loopTaint {
				hv.Taint = append(hv.Taint, r)
			}
		}
		stH.locals[k] = hv
	}
	// heap well-formedness of havoced pointer locals is covered by wf on load.
	// 4. assume invariants
	if ri := rangeIndexAlloc(li); ri != nil {
		if v, ok := stH.locals[localKey{ri, fr.id}]; ok {
			// the hidden range counter starts at -1 and only increments; at the header it is
			// below the length evaluated before the loop (by construction of the lowering)
			u.assume(fmt.Sprintf("(>= %s (- 1))", v.T))
			for _, in := range li.header.Instrs {
				if bo, ok := in.(*ssa.BinOp); ok && bo.Op == token.LSS {
					if lv, ok := fr.vals[bo.Y]; ok && lv.Addr == nil {
						u.assume(fmt.Sprintf("(< %s %s)", v.T, lv.T))
					} else if c, ok := bo.Y.(*ssa.Const); ok {
						u.assume(fmt.Sprintf("(< %s %s)", v.T, x.value(fr, c).T))
					}
				}
			}
		}
	}
	for _, c := range frameComps {
		if goal, ok := x.frameGoal(c, stH); ok {
			u.assume(fmt.Sprintf("(=> %s %s)", reachE, goal))
		}
	}
	for _, inv := range spec.Invariants {
		t, err := x.evalLoopClause(fr, li, stH, inv.E)
		if err == nil {
			u.assume(fmt.Sprintf("(=> %s %s)", reachE, t))
		}
	}
	var decBefore string
	if spec.Decreases != nil {
		t, err := x.evalLoopClause(fr, li, stH, spec.Decreases)
		if err == nil {
			decBefore = u.define("dec", "Int", t)
		}
	}
	// 5. execute body once
	exits, backs := x.execRegion(fr, li, map[*ssa.BasicBlock][]incoming{li.header: {{cond: reachE, st: stH}}})
	// 6. invariants on back edges
	for bi, be := range backs {
		// lock balance: an iteration releases what it acquired
		if fr.con != nil && fr.con == x.topCon && fr.con.Safe {
			if hb, ok := be.st.heap[heldComp]; ok {
				if hh := x.heapGet(stH, heldComp); hh != hb {
					u.addObl(&Obligation{Name: fmt.Sprintf("%s:lockbalance:preserve.%d", lname, bi+1), Kind: "safe:lock", Clause: "every mutex acquired in the loop body is released before the next iteration", Goal: fmt.Sprintf("(=> %s (= %s %s))", be.cond, hb, hh)})
				}
			}
		}
		for _, c := range frameComps {
			if goal, ok := x.frameGoal(c, be.st); ok {
				u.addObl(&Obligation{Name: fmt.Sprintf("%s:frame:%s:preserve.%d", lname, c, bi+1), Kind: "frame", Clause: "loop body: only declared locations of " + c + " are modified", Goal: fmt.Sprintf("(=> %s %s)", be.cond, goal)})
			}
		}
		for _, inv := range spec.Invariants {
			t, err := x.evalLoopClauseBack(fr, li, be.st, inv.E)
			name := fmt.Sprintf("%s:inv%s:preserve", lname, clauseLabel(inv))
			if len(backs) > 1 {
				name += fmt.Sprintf(".%d", bi+1)
			}
			o := &Obligation{Name: name, Kind: "invariant-preserve", Clause: inv.Src, For: inv.For}
			if err != nil {
				o.Fail = err.Error()
			} else {
				o.Goal = fmt.Sprintf("(=> %s %s)", be.cond, t)
			}
			u.addObl(o)
		}
		if spec.Decreases != nil && decBefore != "" {
			t, err := x.evalLoopClauseBack(fr, li, be.st, spec.Decreases)
			o := &Obligation{Name: fmt.Sprintf("%s:decreases.%d", lname, bi+1), Kind: "decreases", Clause: spec.Decreases.String()}
			if err != nil {
				o.Fail = err.Error()
			} else {
				o.Goal = fmt.Sprintf("(=> %s (and (>= %s 0) (< %s %s)))", be.cond, decBefore, t, decBefore)
			}
			u.addObl(o)
		}
	}
	return exits
}

func clauseLabel(c *Clause) string {
	if c.Name != "" {
		return "[" + c.Name + "]"
	}
	return fmt.Sprintf("%d", c.Idx)
}

func (x *Executor) syntacticLocalStores(fr *Frame, li *loopInfo) map[localKey]bool {
	out := map[localKey]bool{}
	for b := range li.body {
		for _, in := range b.Instrs {
			if s, ok := in.(*ssa.Store); ok {
				if a := rootAlloc(s.Addr); a != nil && !a.Heap {
					out[localKey{a, fr.id}] = true
				}
			}
		}
	}
	return out
}

func rootAlloc(v ssa.Value) *ssa.Alloc {
	for {
		switch t := v.(type) {
		case *ssa.Alloc:
			return t
		case *ssa.FieldAddr:
			v = t.X
		case *ssa.IndexAddr:
			v = t.X
		default:
			return nil
		}
	}
}

// ------------------------------------------------------------------ block execution

func (x *Executor) execBlock(fr *Frame, b *ssa.BasicBlock, st *State, reach string) []outEdge {
	u := x.u
	for _, in := range b.Instrs {
		u.curPos = x.pos(fr.fn, in.Pos())
		if in.Pos().IsValid() {
			x.curTokPos = in.Pos()
		}
		x.curFrame = fr
		switch t := in.(type) {
		case *ssa.Phi, *ssa.DebugRef:
			continue
		case *ssa.If:
			c := x.value(fr, t.Cond)
			ct := u.define("c", "Bool", c.T)
			return []outEdge{
				{b.Succs[0], u.define("e", "Bool", fmt.Sprintf("(and %s %s)", reach, ct)), st},
				{b.Succs[1], u.define("e", "Bool", fmt.Sprintf("(and %s (not %s))", reach, ct)), st.clone()},
			}
		case *ssa.Jump:
			return []outEdge{{b.Succs[0], reach, st}}
		case *ssa.Return:
			var rs []Val
			for _, r := range t.Results {
				rs = append(rs, x.value(fr, r))
			}
			fr.exits = append(fr.exits, exitPoint{reach, st, rs})
			return nil
		case *ssa.Panic:
			if fr.safe {
				u.addObl(&Obligation{Name: fr.prefix + "#safe:panic", Kind: "safe:panic", Clause: "explicit panic unreachable", Goal: fmt.Sprintf("(not %s)", reach)})
			}
			return nil
		default:
			x.execInstr(fr, in, st, reach)
		}
	}
	return nil
}

// check emits a safety obligation in safe frames and assumes the condition otherwise (a violated
// condition is a run-time panic, which ends the path).
func (x *Executor) check(fr *Frame, kind, cond, reach, what string) {
	u := x.u
	if fr.safe {
		u.addObl(&Obligation{Name: fr.prefix + "#safe:" + kind, Kind: "safe:" + kind, Clause: what, Goal: fmt.Sprintf("(=> %s %s)", reach, cond)})
	} else {
		u.assume(fmt.Sprintf("(=> %s %s)", reach, cond))
	}
}

func (x *Executor) value(fr *Frame, v ssa.Value) Val {
	u := x.u
	switch t := v.(type) {
	case *ssa.Const:
		if t.Value == nil {
			return Val{T: u.zeroOf(t.Type()), Ty: t.Type()}
		}
		return Val{T: u.constTerm(t.Value, t.Type()), Ty: t.Type()}
	case *ssa.Function:
		return Val{T: u.funcConst(t), Ty: t.Type(), Fn: t}
	case *ssa.Global:
		pt := t.Type().(*types.Pointer).Elem()
		name, _ := u.globalComp(t.Pkg.Pkg.Path(), t.Name(), pt)
		if u.eng.constErrGlobal(t, name) {
			g0 := q(name + "@0")
			u.declare(g0, "Iface")
			u.assume(fmt.Sprintf("(not (= (i.tag %s) 0))", g0))
			// error variables initialised from separate constructor calls are pairwise distinct
			for _, other := range u.constErrs {
				if other != g0 {
					u.assume(fmt.Sprintf("(not (= %s %s))", g0, other))
				}
			}
			seen := false
			for _, other := range u.constErrs {
				if other == g0 {
					seen = true
				}
			}
			if !seen {
				u.constErrs = append(u.constErrs, g0)
			}
			u.trusted["package-level error variables assigned once in init are non-nil constants (checked syntactically)"] = true
		}
		return Val{T: "0", Ty: t.Type(), Addr: &Addr{Kind: "global", Global: name, GlobT: pt, Ty: pt}}
	case *ssa.Builtin:
		return Val{T: "0", Ty: t.Type()}
	}
	if val, ok := fr.vals[v]; ok {
		return val
	}
	if fv, ok := v.(*ssa.FreeVar); ok {
		for i, f := range fr.fn.FreeVars {
			if f == fv && i < len(fr.bind) {
				return fr.bind[i]
			}
		}
	}
	if p, ok := v.(*ssa.Parameter); ok {
		for i, q := range fr.fn.Params {
			if q == p {
				return fr.params[i]
			}
		}
	}
	u.unsupported(fmt.Sprintf("value %s (%T) used before definition in %s", v.Name(), v, fr.fn.Name()))
	n := u.freshConst("undef", u.sortOf(v.Type()))
	return Val{T: n, Ty: v.Type()}
}

func (u *Unit) funcConst(f *ssa.Function) string {
	n := q("fn$" + f.String())
	if !u.declSeen[n] {
		u.declSeen[n] = true
		u.decls = append(u.decls, fmt.Sprintf("(define-fun %s () Int %d)", n, u.eng.funcID(f)))
	}
	return n
}

// ------------------------------------------------------------------ memory

func (x *Executor) applyPath(base string, baseTy types.Type, path []pathStep) string {
	t := base
	for _, s := range path {
		if s.field >= 0 {
			x.u.sortOf(s.structT)
			t = fmt.Sprintf("(%s %s)", x.u.fieldAcc(s.structT, s.field), t)
		} else {
			t = fmt.Sprintf("(select %s %s)", t, s.idx)
		}
	}
	return t
}

func (x *Executor) updatePath(base string, path []pathStep, nv string) string {
	if len(path) == 0 {
		return nv
	}
	s := path[0]
	u := x.u
	if s.field >= 0 {
		u.sortOf(s.structT)
		st := s.structT.Underlying().(*types.Struct)
		inner := x.updatePath(fmt.Sprintf("(%s %s)", u.fieldAcc(s.structT, s.field), base), path[1:], nv)
		var parts []string
		for i := 0; i < st.NumFields(); i++ {
			if i == s.field {
				parts = append(parts, inner)
			} else {
				parts = append(parts, fmt.Sprintf("(%s %s)", u.fieldAcc(s.structT, i), base))
			}
		}
		for _, g := range u.ghostFields(s.structT) {
			parts = append(parts, fmt.Sprintf("(%s %s)", q(u.structName(s.structT)+"$"+g.name), base))
		}
		return "(" + u.structCtor(s.structT) + " " + strings.Join(parts, " ") + ")"
	}
	inner := x.updatePath(fmt.Sprintf("(select %s %s)", base, s.idx), path[1:], nv)
	return fmt.Sprintf("(store %s %s %s)", base, s.idx, inner)
}

func (x *Executor) rootLoad(st *State, a *Addr) (string, types.Type) {
	u := x.u
	switch a.Kind {
	case "local":
		v, ok := st.locals[a.Local]
		ty := a.Local.alloc.Type().(*types.Pointer).Elem()
		if !ok {
			return u.zeroOf(ty), ty
		}
		if v.T == "poison" {
			u.unsupported("use of a local merged from incompatible symbolic values: " + a.Local.alloc.Comment)
			return u.freshConst("poison", u.sortOf(ty)), ty
		}
		return v.T, ty
	case "field":
		comp, _ := u.fieldComp(a.Struct, a.Field)
		return fmt.Sprintf("(select %s %s)", x.heapGet(st, comp), a.Ref), fieldType(u, a.Struct, a.Field)
	case "elem":
		comp, _ := u.elemComp(a.ElemT)
		return fmt.Sprintf("(select (select %s %s) %s)", x.heapGet(st, comp), a.Ref, a.Idx), a.ElemT
	case "cell":
		comp, _ := u.cellComp(a.CellT)
		return fmt.Sprintf("(select %s %s)", x.heapGet(st, comp), a.Ref), a.CellT
	case "global":
		return x.heapGet(st, a.Global), a.GlobT
	}
	panic("bad addr kind " + a.Kind)
}

func fieldType(u *Unit, structT types.Type, field string) types.Type {
	if st, ok := structT.Underlying().(*types.Struct); ok {
		for i := 0; i < st.NumFields(); i++ {
			if st.Field(i).Name() == field {
				return st.Field(i).Type()
			}
		}
	}
	for _, g := range u.ghostFields(structT) {
		if g.name == field {
			return g.ty
		}
	}
	return nil
}

// load reads the value at address a. A local holding a symbolic pointer yields that pointer.
func (x *Executor) load(st *State, a *Addr, reach string) Val {
	u := x.u
	if a.Kind == "local" && len(a.Path) == 0 {
		if v, ok := st.locals[a.Local]; ok && (v.Addr != nil || v.Fn != nil || len(v.Tup) > 0) {
			return v
		}
	}
	// whole-struct load from a pointer to struct: assemble from field heaps
	if a.Kind == "structobj" {
		return Val{T: x.loadStructObj(st, a.Ref, a.Struct), Ty: a.Struct}
	}
	root, _ := x.rootLoad(st, a)
	t := x.applyPath(root, nil, a.Path)
	t = u.define("ld", u.sortOf(a.Ty), t)
	v := Val{T: t, Ty: a.Ty}
	if a.Kind == "local" {
		if lv, ok := st.locals[a.Local]; ok {
			v.Taint = lv.Taint
		}
	}
	// well-formedness of a computed value holds on the paths that compute it
	if wf := u.wfValue(t, a.Ty, 0); wf != "true" {
		if reach == "" || reach == "true" {
			u.assume(wf)
		} else {
			u.assume(fmt.Sprintf("(=> %s %s)", reach, wf))
		}
	}
	x.reachGuard = reach
	x.assumeAllocatedFrom(st, v, a.Kind != "local")
	x.reachGuard = ""
	return v
}

// assumeAllocated: pointers read from a well-formed heap are nil or allocated.
func (x *Executor) assumeAllocated(st *State, v Val) { x.assumeAllocatedFrom(st, v, false) }

// assumeG: assumption guarded by the current reach condition (facts about computed values).
func (x *Executor) assumeG(t string) {
	if x.reachGuard == "" || x.reachGuard == "true" {
		x.u.assume(t)
		return
	}
	x.u.assume(fmt.Sprintf("(=> %s %s)", x.reachGuard, t))
}

// fromHeap: the value was read from a heap location (not a local, not a call result).
func (x *Executor) assumeAllocatedFrom(st *State, v Val, fromHeap bool) {
	u := x.u
	if v.Ty == nil || v.Addr != nil {
		return
	}
	// a value read from the heap (or received from outside) cannot point into an object this
	// function allocated and never let escape
	notFresh := func(ref string) {
		var rs []string
		for r := range st.fresh {
			rs = append(rs, r)
		}
		sort.Strings(rs)
		for _, r := range rs {
			x.assumeG(fmt.Sprintf("(not (= (refroot %s) %s))", ref, r))
		}
	}
	switch v.Ty.Underlying().(type) {
	case *types.Pointer, *types.Map:
		u.ensureAllocComp()
		x.assumeG(fmt.Sprintf("(or (= %s 0) (select %s (refroot %s)))", v.T, x.heapGet(st, allocComp), v.T))
		if fromHeap {
			notFresh(v.T)
		}
	case *types.Slice:
		u.ensureAllocComp()
		x.assumeG(fmt.Sprintf("(or (= (s.base %s) 0) (select %s (refroot (s.base %s))))", v.T, x.heapGet(st, allocComp), v.T))
		if fromHeap {
			notFresh(fmt.Sprintf("(s.base %s)", v.T))
		}
	case *types.Interface:
		// dynamic pointer payloads: allocated or boxed ids (boxed ids are not in alloc but never compared with refs of the same type)
	}
}

func (x *Executor) loadStructObj(st *State, ref string, structT types.Type) string {
	return x.u.structObjTerm(func(c string) string { return x.heapGet(st, c) }, ref, structT)
}

func (x *Executor) storeStructObj(st *State, ref string, structT types.Type, val string) {
	u := x.u
	u.sortOf(structT)
	s := structT.Underlying().(*types.Struct)
	for i := 0; i < s.NumFields(); i++ {
		ft := s.Field(i).Type()
		fv := fmt.Sprintf("(%s %s)", u.fieldAcc(structT, i), val)
		if isFlattened(ft) {
			sr := u.subRef(structT, s.Field(i).Name(), ref)
			if at, ok := ft.Underlying().(*types.Array); ok {
				comp, _ := u.elemComp(at.Elem())
				x.heapSet(st, comp, fmt.Sprintf("(store %s %s %s)", x.heapGet(st, comp), sr, fv))
			} else {
				x.storeStructObj(st, sr, ft, fv)
			}
			continue
		}
		comp, _ := u.fieldComp(structT, s.Field(i).Name())
		x.heapSet(st, comp, fmt.Sprintf("(store %s %s %s)", x.heapGet(st, comp), ref, fv))
	}
	for _, g := range u.ghostFields(structT) {
		comp, _ := u.fieldComp(structT, g.name)
		x.heapSet(st, comp, fmt.Sprintf("(store %s %s (%s %s))", x.heapGet(st, comp), ref, q(u.structName(structT)+"$"+g.name), val))
	}
}

func (x *Executor) store(st *State, a *Addr, v Val, reach string) {
	u := x.u
	if a.Kind == "structobj" {
		x.escape(st, v)
		x.storeStructObj(st, a.Ref, a.Struct, v.T)
		x.guardWrites(st, a, reach)
		return
	}
	if a.Kind == "local" && len(a.Path) == 0 {
		st.locals[a.Local] = v
		x.recordLocalWrite(a.Local)
		x.recordLocalTaint(v)
		return
	}
	if v.Addr != nil {
		u.unsupported("interior pointer stored to memory")
		v = Val{T: u.freshConst("interior", "Int"), Ty: v.Ty}
	}
	if a.Kind != "local" {
		x.escape(st, v)
	}
	root, _ := x.rootLoad(st, a)
	nv := x.updatePath(root, a.Path, v.T)
	switch a.Kind {
	case "local":
		ty := a.Local.alloc.Type().(*types.Pointer).Elem()
		old := st.locals[a.Local]
		st.locals[a.Local] = Val{T: u.define("loc$"+a.Local.alloc.Comment, u.sortOf(ty), nv), Ty: ty, Taint: unionTaint(old, v)}
		x.recordLocalWrite(a.Local)
		x.recordLocalTaint(v)
	case "field":
		comp, _ := u.fieldComp(a.Struct, a.Field)
		if len(a.Path) == 0 {
			x.atStoreObligations(st, a, fmt.Sprintf("(select %s %s)", x.heapGet(st, comp), a.Ref), v, reach)
		}
		x.heapSet(st, comp, fmt.Sprintf("(store %s %s %s)", x.heapGet(st, comp), a.Ref, nv))
	case "elem":
		comp, _ := u.elemComp(a.ElemT)
		h := x.heapGet(st, comp)
		x.heapSet(st, comp, fmt.Sprintf("(store %s %s (store (select %s %s) %s %s))", h, a.Ref, h, a.Ref, a.Idx, nv))
	case "cell":
		comp, _ := u.cellComp(a.CellT)
		x.heapSet(st, comp, fmt.Sprintf("(store %s %s %s)", x.heapGet(st, comp), a.Ref, nv))
	case "global":
		x.heapSet(st, a.Global, nv)
	}
	x.guardWrites(st, a, reach)
}

// atStoreObligations: the enclosing contract may constrain stores to a named field.
func (x *Executor) atStoreObligations(st *State, a *Addr, oldT string, nv Val, reach string) {
	fr := x.curFrame
	if fr == nil || x.topCon == nil || len(x.topCon.AtStore) == 0 {
		return
	}
	n, ok := a.Struct.(*types.Named)
	if !ok {
		return
	}
	key := n.Obj().Name() + "." + a.Field
	cls := x.topCon.AtStore[key]
	if cls == nil {
		return
	}
	u := x.u
	if u.atMatched == nil {
		u.atMatched = map[string]bool{}
	}
	u.atMatched["store:"+key] = true
	fty := fieldType(u, a.Struct, a.Field)
	vars := map[string]Val{"old": {T: oldT, Ty: fty}, "new": {T: nv.T, Ty: fty}}
	for k, v := range x.topVars {
		if _, taken := vars[k]; !taken {
			vars[k] = v
		}
	}
	env := &Env{x: x, u: u, vars: vars, bound: map[string]Val{}, st: st, old: x.entry, pkg: x.topPkg, localsAfter: x.localsLookup(fr, st)}
	for _, cl := range cls {
		t, err := env.Eval(cl.E)
		o := &Obligation{Name: fmt.Sprintf("%s#atstore:%s:requires%s", fr.prefix, key, clauseLabel(cl)), Kind: "ensures", Clause: "at store to " + key + ": " + cl.Src, For: cl.For}
		if err != nil {
			o.Fail = err.Error()
		} else {
			o.Goal = fmt.Sprintf("(=> %s %s)", reach, t.T)
		}
		u.addObl(o)
	}
}

// guardWrites is a hook for field-write guards (two-state conditions on every store to a field).
func (x *Executor) guardWrites(st *State, a *Addr, reach string) {
	if a.Kind != "field" && a.Kind != "structobj" {
		return
	}
	if x.u.eng.guardHook != nil {
		x.u.eng.guardHook(x, st, a, reach)
	}
}

// protectComp: after a havoc of component c (old -> new version), objects that are still
// protected (allocated here, never escaped) keep their contents.
func (x *Executor) protectComp(stOld, stNew *State, c, oldT, newT string) {
	u := x.u
	var refs []string
	for r := range stNew.fresh {
		refs = append(refs, r)
	}
	sort.Strings(refs)
	for _, r := range refs {
		for _, loc := range x.compsOfObject(r, stNew.fresh[r]) {
			if loc.comp == c {
				u.assume(fmt.Sprintf("(= (select %s %s) (select %s %s))", newT, loc.ref, oldT, loc.ref))
			}
		}
	}
}

type objLoc struct{ comp, ref string }

// compsOfObject lists the heap components (and the reference used in each) that make up the
// object of type t at ref.
func (x *Executor) compsOfObject(ref string, t types.Type) []objLoc {
	u := x.u
	var out []objLoc
	switch tt := t.Underlying().(type) {
	case *types.Struct:
		for i := 0; i < tt.NumFields(); i++ {
			ft := tt.Field(i).Type()
			if isFlattened(ft) {
				out = append(out, x.compsOfObject(u.subRef(t, tt.Field(i).Name(), ref), ft)...)
				continue
			}
			c, _ := u.fieldComp(t, tt.Field(i).Name())
			out = append(out, objLoc{c, ref})
		}
		for _, g := range u.ghostFields(t) {
			c, _ := u.fieldComp(t, g.name)
			out = append(out, objLoc{c, ref})
		}
	case *types.Array:
		c, _ := u.elemComp(tt.Elem())
		out = append(out, objLoc{c, ref})
	default:
		c, _ := u.cellComp(t)
		out = append(out, objLoc{c, ref})
	}
	return out
}

// pointerTo builds the address designated by a pointer value.
func (x *Executor) deref(v Val) *Addr {
	if v.Addr != nil {
		return v.Addr
	}
	pt, ok := v.Ty.Underlying().(*types.Pointer)
	if !ok {
		panic("deref of non-pointer " + v.Ty.String())
	}
	et := pt.Elem()
	if _, isStruct := et.Underlying().(*types.Struct); isStruct {
		return &Addr{Kind: "structobj", Ref: v.T, Struct: et, Ty: et}
	}
	if at, isArr := et.Underlying().(*types.Array); isArr {
		// heap arrays live in the element heap at their own ref
		return &Addr{Kind: "arrobj", Ref: v.T, ElemT: at.Elem(), Ty: et}
	}
	return &Addr{Kind: "cell", Ref: v.T, CellT: et, Ty: et}
}

func (x *Executor) allocRef(st *State, hint string) string {
	u := x.u
	u.ensureAllocComp()
	r := u.freshConst("new$"+hint, "Int")
	al := x.heapGet(st, allocComp)
	u.assume(fmt.Sprintf("(and (> %s 0) (not (select %s %s)) (= (refkind %s) 0) (= (refroot %s) %s))", r, al, r, r, r, r))
	x.heapSet(st, allocComp, fmt.Sprintf("(store %s %s true)", al, r))
	// in particular it was not allocated when the function under verification was entered
	a0 := q(allocComp + "@0")
	if u.declSeen[a0] && a0 != al {
		u.assume(fmt.Sprintf("(not (select %s %s))", a0, r))
	}
	return r
}
